//! Container models used ONLY under cfg(kani) (DESIGN.md 1.1).  The import
//! lines `use std::collections::{VecDeque|HashMap|HashSet}` of the real source
//! files are redirected here in the scratch snapshot; every other line of the
//! real code is untouched.  Native replays use the std containers.
#![allow(dead_code)]

// ---------------------------------------------------------------------------
// VecDeque: fixed-capacity ring buffer (no loops).  Exceeding the model's
// capacity is a *reported failure* ("model capacity exceeded"), never hidden.
pub const VD_CAP: usize = 8;

pub struct VecDeque<T> {
    buf: [T; VD_CAP],
    head: usize,
    len: usize,
}

impl<T: Copy + Default> VecDeque<T> {
    pub fn new() -> Self {
        VecDeque { buf: [T::default(); VD_CAP], head: 0, len: 0 }
    }
    pub fn with_capacity(n: usize) -> Self {
        assert!(n <= VD_CAP, "verif_shim: VecDeque model capacity (8) too small for this instance");
        VecDeque { buf: [T::default(); VD_CAP], head: 0, len: 0 }
    }
    pub fn len(&self) -> usize {
        self.len
    }
    pub fn is_empty(&self) -> bool {
        self.len == 0
    }
    pub fn clear(&mut self) {
        self.len = 0;
        self.head = 0;
    }
    pub fn push_back(&mut self, v: T) {
        assert!(self.len < VD_CAP, "verif_shim: VecDeque model capacity exceeded");
        let i = (self.head + self.len) % VD_CAP;
        self.buf[i] = v;
        self.len += 1;
    }
    pub fn pop_front(&mut self) -> Option<T> {
        if self.len == 0 {
            return None;
        }
        let v = self.buf[self.head];
        self.head = (self.head + 1) % VD_CAP;
        self.len -= 1;
        Some(v)
    }
    pub fn get(&self, i: usize) -> Option<&T> {
        if i < self.len {
            Some(&self.buf[(self.head + i) % VD_CAP])
        } else {
            None
        }
    }
    pub fn front(&self) -> Option<&T> {
        self.get(0)
    }
    pub fn back(&self) -> Option<&T> {
        if self.len == 0 {
            None
        } else {
            self.get(self.len - 1)
        }
    }
}

// ---------------------------------------------------------------------------
// HashMap / HashSet: association lists.  Iteration order = insertion order, or
// the reverse when the crate is built with `--features verif_rev_iter`, so
// that order-sensitivity of the code under test is exercised both ways.
pub struct HashMap<K, V> {
    items: Vec<(K, V)>,
}

impl<K: PartialEq, V> HashMap<K, V> {
    pub fn new() -> Self {
        HashMap { items: Vec::new() }
    }
    pub fn with_capacity(_n: usize) -> Self {
        HashMap { items: Vec::new() }
    }
    pub fn len(&self) -> usize {
        self.items.len()
    }
    pub fn is_empty(&self) -> bool {
        self.items.is_empty()
    }
    pub fn insert(&mut self, k: K, v: V) -> Option<V> {
        let mut i = 0;
        while i < self.items.len() {
            if self.items[i].0 == k {
                return Some(core::mem::replace(&mut self.items[i].1, v));
            }
            i += 1;
        }
        self.items.push((k, v));
        None
    }
    pub fn get(&self, k: &K) -> Option<&V> {
        let mut i = 0;
        while i < self.items.len() {
            if self.items[i].0 == *k {
                return Some(&self.items[i].1);
            }
            i += 1;
        }
        None
    }
    pub fn contains_key(&self, k: &K) -> bool {
        self.get(k).is_some()
    }
    pub fn iter(&self) -> MapIter<'_, K, V> {
        MapIter { m: self, i: 0 }
    }
}

pub struct MapIter<'a, K, V> {
    m: &'a HashMap<K, V>,
    i: usize,
}

impl<'a, K, V> Iterator for MapIter<'a, K, V> {
    type Item = (&'a K, &'a V);
    fn next(&mut self) -> Option<Self::Item> {
        if self.i >= self.m.items.len() {
            return None;
        }
        let n = self.m.items.len();
        let idx = if cfg!(feature = "verif_rev_iter") { n - 1 - self.i } else { self.i };
        self.i += 1;
        let e = &self.m.items[idx];
        Some((&e.0, &e.1))
    }
}

impl<K: PartialEq, V> FromIterator<(K, V)> for HashMap<K, V> {
    fn from_iter<I: IntoIterator<Item = (K, V)>>(it: I) -> Self {
        let mut m = HashMap::new();
        for (k, v) in it {
            m.insert(k, v);
        }
        m
    }
}

pub struct HashSet<K> {
    items: Vec<K>,
}

impl<K: PartialEq> HashSet<K> {
    pub fn new() -> Self {
        HashSet { items: Vec::new() }
    }
    pub fn len(&self) -> usize {
        self.items.len()
    }
    pub fn contains(&self, k: &K) -> bool {
        let mut i = 0;
        while i < self.items.len() {
            if self.items[i] == *k {
                return true;
            }
            i += 1;
        }
        false
    }
    pub fn insert(&mut self, k: K) -> bool {
        if self.contains(&k) {
            return false;
        }
        self.items.push(k);
        true
    }
}

impl<K> IntoIterator for HashSet<K> {
    type Item = K;
    type IntoIter = std::vec::IntoIter<K>;
    fn into_iter(mut self) -> Self::IntoIter {
        if cfg!(feature = "verif_rev_iter") {
            self.items.reverse();
        }
        self.items.into_iter()
    }
}
