//! Container models used ONLY under cfg(kani) (DESIGN.md 1.1).  The import
//! lines `use std::collections::{VecDeque|HashMap|HashSet}` of the real source
//! files are redirected here in the scratch snapshot; every other line of the
//! real code is untouched.  Native replays use the std containers.
#![allow(dead_code)]

// ---------------------------------------------------------------------------
// VecDeque: fixed-capacity ring buffer (no loops).  Exceeding the model's
// capacity is a *reported failure* ("model capacity exceeded"), never hidden.
pub const VD_CAP: usize = 8;

pub struct VecDeque<T> {
    buf: [T; VD_CAP],
    head: usize,
    len: usize,
}

impl<T: Copy + Default> VecDeque<T> {
    pub fn new() -> Self {
        VecDeque { buf: [T::default(); VD_CAP], head: 0, len: 0 }
    }
    pub fn with_capacity(n: usize) -> Self {
        assert!(n <= VD_CAP, "verif_shim: VecDeque model capacity (8) too small for this instance");
        VecDeque { buf: [T::default(); VD_CAP], head: 0, len: 0 }
    }
    pub fn len(&self) -> usize {
        self.len
    }
    pub fn is_empty(&self) -> bool {
        self.len == 0
    }
    pub fn clear(&mut self) {
        self.len = 0;
        self.head = 0;
    }
    pub fn push_back(&mut self, v: T) {
        assert!(self.len < VD_CAP, "verif_shim: VecDeque model capacity exceeded");
        let i = (self.head + self.len) % VD_CAP;
        self.buf[i] = v;
        self.len += 1;
    }
    pub fn pop_front(&mut self) -> Option<T> {
        if self.len == 0 {
            return None;
        }
        let v = self.buf[self.head];
        self.head = (self.head + 1) % VD_CAP;
        self.len -= 1;
        Some(v)
    }
    pub fn get(&self, i: usize) -> Option<&T> {
        if i < self.len {
            Some(&self.buf[(self.head + i) % VD_CAP])
        } else {
            None
        }
    }
    pub fn front(&self) -> Option<&T> {
        self.get(0)
    }
    pub fn back(&self) -> Option<&T> {
        if self.len == 0 {
            None
        } else {
            self.get(self.len - 1)
        }
    }
}

// ---------------------------------------------------------------------------
// HashMap / HashSet: association lists in FIXED arrays inside the struct.
// (Heap-backed lists made CBMC lose constant propagation: every lookup on a
// concrete table became symbolic and `push` re-allocations with symbolic sizes
// exhausted 30 GB.)  MAP_CAP = 32 (CBMC keeps arrays up to 64 elements field-sensitive);
// exceeding it is a *reported failure*.  Iteration order = insertion order, or
// the reverse when built with `--features verif_rev_iter`, so that
// order-sensitivity of the code under test is exercised both ways.
pub const MAP_CAP: usize = 32;

pub struct HashMap<K, V> {
    keys: [K; MAP_CAP],
    vals: [V; MAP_CAP],
    len: usize,
}

impl<K: Copy + Default + PartialEq, V: Copy + Default> HashMap<K, V> {
    pub fn new() -> Self {
        HashMap { keys: [K::default(); MAP_CAP], vals: [V::default(); MAP_CAP], len: 0 }
    }
    pub fn with_capacity(_n: usize) -> Self {
        Self::new()
    }
    pub fn len(&self) -> usize {
        self.len
    }
    pub fn is_empty(&self) -> bool {
        self.len == 0
    }
    pub fn insert(&mut self, k: K, v: V) -> Option<V> {
        let mut i = 0;
        while i < MAP_CAP {
            if i < self.len && self.keys[i] == k {
                let old = self.vals[i];
                self.vals[i] = v;
                return Some(old);
            }
            i += 1;
        }
        assert!(self.len < MAP_CAP, "verif_shim: HashMap model capacity (32) exceeded");
        self.keys[self.len] = k;
        self.vals[self.len] = v;
        self.len += 1;
        None
    }
    pub fn get(&self, k: &K) -> Option<&V> {
        let mut i = 0;
        while i < MAP_CAP {
            if i < self.len && self.keys[i] == *k {
                return Some(&self.vals[i]);
            }
            i += 1;
        }
        None
    }
    pub fn contains_key(&self, k: &K) -> bool {
        self.get(k).is_some()
    }
    pub fn iter(&self) -> MapIter<'_, K, V> {
        MapIter { m: self, i: 0 }
    }
}

pub struct MapIter<'a, K, V> {
    m: &'a HashMap<K, V>,
    i: usize,
}

impl<'a, K, V> Iterator for MapIter<'a, K, V> {
    type Item = (&'a K, &'a V);
    fn next(&mut self) -> Option<Self::Item> {
        if self.i >= self.m.len {
            return None;
        }
        let n = self.m.len;
        let idx = if cfg!(feature = "verif_rev_iter") { n - 1 - self.i } else { self.i };
        self.i += 1;
        Some((&self.m.keys[idx], &self.m.vals[idx]))
    }
}

impl<K: Copy + Default + PartialEq, V: Copy + Default> FromIterator<(K, V)> for HashMap<K, V> {
    fn from_iter<I: IntoIterator<Item = (K, V)>>(it: I) -> Self {
        let mut m = HashMap::new();
        for (k, v) in it {
            m.insert(k, v);
        }
        m
    }
}

pub struct HashSet<K> {
    keys: [K; MAP_CAP],
    len: usize,
}

impl<K: Copy + Default + PartialEq> HashSet<K> {
    pub fn new() -> Self {
        HashSet { keys: [K::default(); MAP_CAP], len: 0 }
    }
    pub fn len(&self) -> usize {
        self.len
    }
    pub fn contains(&self, k: &K) -> bool {
        let mut i = 0;
        while i < MAP_CAP {
            if i < self.len && self.keys[i] == *k {
                return true;
            }
            i += 1;
        }
        false
    }
    pub fn insert(&mut self, k: K) -> bool {
        if self.contains(&k) {
            return false;
        }
        assert!(self.len < MAP_CAP, "verif_shim: HashSet model capacity (32) exceeded");
        self.keys[self.len] = k;
        self.len += 1;
        true
    }
}

pub struct SetIntoIter<K> {
    keys: [K; MAP_CAP],
    len: usize,
    i: usize,
}

impl<K: Copy> Iterator for SetIntoIter<K> {
    type Item = K;
    fn next(&mut self) -> Option<K> {
        if self.i >= self.len {
            return None;
        }
        let idx = if cfg!(feature = "verif_rev_iter") { self.len - 1 - self.i } else { self.i };
        self.i += 1;
        Some(self.keys[idx])
    }
    fn size_hint(&self) -> (usize, Option<usize>) {
        (self.len - self.i, Some(self.len - self.i))
    }
}

impl<K: Copy> IntoIterator for HashSet<K> {
    type Item = K;
    type IntoIter = SetIntoIter<K>;
    fn into_iter(self) -> Self::IntoIter {
        SetIntoIter { keys: self.keys, len: self.len, i: 0 }
    }
}

// ---------------------------------------------------------------------------
// Vec model for the per-run k-mer list of kmer_minimisers.rs ONLY (injected
// there by one added import line that shadows the prelude's Vec inside that
// file).  The real alloc::vec::Vec with data-dependent `push` made CBMC
// re-allocate with symbolic sizes (10 GB at w=3, L=5).  Fixed capacity;
// exceeding it is a reported failure.
pub const KV_CAP: usize = 12;

#[derive(Clone, Copy)]
pub struct Vec<T> {
    buf: [T; KV_CAP],
    len: usize,
}

impl<T: Copy + Default> Vec<T> {
    pub fn new() -> Self {
        Vec { buf: [T::default(); KV_CAP], len: 0 }
    }
    pub fn len(&self) -> usize {
        self.len
    }
    pub fn is_empty(&self) -> bool {
        self.len == 0
    }
    pub fn clear(&mut self) {
        self.len = 0;
    }
    pub fn push(&mut self, v: T) {
        assert!(self.len < KV_CAP, "verif_shim: Vec model capacity (12) exceeded");
        self.buf[self.len] = v;
        self.len += 1;
    }
    pub fn clone_from(&mut self, other: &Self) {
        *self = *other;
    }
    pub fn get(&self, i: usize) -> Option<&T> {
        if i < self.len {
            Some(&self.buf[i])
        } else {
            None
        }
    }
}

impl<T> core::ops::Index<usize> for Vec<T> {
    type Output = T;
    fn index(&self, i: usize) -> &T {
        assert!(i < self.len, "verif_shim: Vec model index out of bounds");
        &self.buf[i]
    }
}
