//! Container models used ONLY under cfg(kani) (DESIGN.md 1.1).  The import
//! lines `use std::collections::{VecDeque|HashMap|HashSet}` of the real source
//! files are redirected here in the scratch snapshot; every other line of the
//! real code is untouched.  Native replays use the std containers.
#![allow(dead_code)]

// ---------------------------------------------------------------------------
// VecDeque: fixed-capacity ring buffer (no loops).  Exceeding the model's
// capacity is a *reported failure* ("model capacity exceeded"), never hidden.
pub const VD_CAP: usize = 8;

pub struct VecDeque<T> {
    buf: [T; VD_CAP],
    head: usize,
    len: usize,
}

impl<T: Copy + Default> VecDeque<T> {
    pub fn new() -> Self {
        VecDeque { buf: [T::default(); VD_CAP], head: 0, len: 0 }
    }
    pub fn with_capacity(n: usize) -> Self {
        assert!(n <= VD_CAP, "verif_shim: VecDeque model capacity (8) too small for this instance");
        VecDeque { buf: [T::default(); VD_CAP], head: 0, len: 0 }
    }
    pub fn len(&self) -> usize {
        self.len
    }
    pub fn is_empty(&self) -> bool {
        self.len == 0
    }
    pub fn clear(&mut self) {
        self.len = 0;
        self.head = 0;
    }
    pub fn push_back(&mut self, v: T) {
        assert!(self.len < VD_CAP, "verif_shim: VecDeque model capacity exceeded");
        let i = (self.head + self.len) % VD_CAP;
        self.buf[i] = v;
        self.len += 1;
    }
    pub fn pop_front(&mut self) -> Option<T> {
        if self.len == 0 {
            return None;
        }
        let v = self.buf[self.head];
        self.head = (self.head + 1) % VD_CAP;
        self.len -= 1;
        Some(v)
    }
    pub fn get(&self, i: usize) -> Option<&T> {
        if i < self.len {
            Some(&self.buf[(self.head + i) % VD_CAP])
        } else {
            None
        }
    }
    pub fn front(&self) -> Option<&T> {
        self.get(0)
    }
    pub fn back(&self) -> Option<&T> {
        if self.len == 0 {
            None
        } else {
            self.get(self.len - 1)
        }
    }
    pub fn push_front(&mut self, v: T) {
        assert!(self.len < VD_CAP, "verif_shim: VecDeque model capacity exceeded");
        self.head = (self.head + VD_CAP - 1) % VD_CAP;
        self.buf[self.head] = v;
        self.len += 1;
    }
    pub fn pop_back(&mut self) -> Option<T> {
        if self.len == 0 {
            return None;
        }
        self.len -= 1;
        Some(self.buf[(self.head + self.len) % VD_CAP])
    }
    pub fn capacity(&self) -> usize {
        VD_CAP
    }
    pub fn iter(&self) -> DequeIter<'_, T> {
        DequeIter { q: self, i: 0 }
    }
}

impl<T: Copy + Default> Default for VecDeque<T> {
    fn default() -> Self {
        Self::new()
    }
}

pub struct DequeIter<'a, T> {
    q: &'a VecDeque<T>,
    i: usize,
}

impl<'a, T: Copy + Default> Iterator for DequeIter<'a, T> {
    type Item = &'a T;
    fn next(&mut self) -> Option<&'a T> {
        let r = self.q.get(self.i);
        if r.is_some() {
            self.i += 1;
        }
        r
    }
}

impl<T: Copy + Default> core::ops::Index<usize> for VecDeque<T> {
    type Output = T;
    fn index(&self, i: usize) -> &T {
        self.get(i).expect("verif_shim: VecDeque model index out of bounds")
    }
}

// ---------------------------------------------------------------------------
// HashMap / HashSet: association lists in FIXED arrays inside the struct.
// (Heap-backed lists made CBMC lose constant propagation: every lookup on a
// concrete table became symbolic and `push` re-allocations with symbolic sizes
// exhausted 30 GB.)  MAP_CAP = 32 (CBMC keeps arrays up to 64 elements field-sensitive);
// exceeding it is a *reported failure*.  Iteration order = insertion order, or
// the reverse when built with `--features verif_rev_iter`, so that
// order-sensitivity of the code under test is exercised both ways.
pub const MAP_CAP: usize = 32;

pub struct HashMap<K, V> {
    keys: [K; MAP_CAP],
    vals: [V; MAP_CAP],
    len: usize,
}

impl<K: Copy + Default + PartialEq, V: Copy + Default> HashMap<K, V> {
    pub fn new() -> Self {
        HashMap { keys: [K::default(); MAP_CAP], vals: [V::default(); MAP_CAP], len: 0 }
    }
    pub fn with_capacity(_n: usize) -> Self {
        Self::new()
    }
    pub fn len(&self) -> usize {
        self.len
    }
    pub fn is_empty(&self) -> bool {
        self.len == 0
    }
    pub fn insert(&mut self, k: K, v: V) -> Option<V> {
        let mut i = 0;
        while i < MAP_CAP {
            if i < self.len && self.keys[i] == k {
                let old = self.vals[i];
                self.vals[i] = v;
                return Some(old);
            }
            i += 1;
        }
        assert!(self.len < MAP_CAP, "verif_shim: HashMap model capacity (32) exceeded");
        self.keys[self.len] = k;
        self.vals[self.len] = v;
        self.len += 1;
        None
    }
    pub fn get(&self, k: &K) -> Option<&V> {
        let mut i = 0;
        while i < MAP_CAP {
            if i < self.len && self.keys[i] == *k {
                return Some(&self.vals[i]);
            }
            i += 1;
        }
        None
    }
    pub fn contains_key(&self, k: &K) -> bool {
        self.get(k).is_some()
    }
    pub fn iter(&self) -> MapIter<'_, K, V> {
        MapIter { m: self, i: 0 }
    }
    fn index_of(&self, k: &K) -> Option<usize> {
        let mut i = 0;
        while i < MAP_CAP {
            if i < self.len && self.keys[i] == *k {
                return Some(i);
            }
            i += 1;
        }
        None
    }
    pub fn get_mut(&mut self, k: &K) -> Option<&mut V> {
        match self.index_of(k) {
            Some(i) => Some(&mut self.vals[i]),
            None => None,
        }
    }
    pub fn remove(&mut self, k: &K) -> Option<V> {
        match self.index_of(k) {
            Some(i) => {
                let old = self.vals[i];
                let mut j = i;
                while j + 1 < MAP_CAP {
                    if j + 1 < self.len {
                        self.keys[j] = self.keys[j + 1];
                        self.vals[j] = self.vals[j + 1];
                    }
                    j += 1;
                }
                self.len -= 1;
                Some(old)
            }
            None => None,
        }
    }
    /// `entry(k).or_insert(v)` / `.or_default()` / `.and_modify(f).or_insert(v)`
    pub fn entry(&mut self, k: K) -> Entry<'_, K, V> {
        Entry { m: self, k }
    }
}

pub struct Entry<'a, K, V> {
    m: &'a mut HashMap<K, V>,
    k: K,
}

impl<'a, K: Copy + Default + PartialEq, V: Copy + Default> Entry<'a, K, V> {
    pub fn or_insert(self, v: V) -> &'a mut V {
        let i = match self.m.index_of(&self.k) {
            Some(i) => i,
            None => {
                self.m.insert(self.k, v);
                self.m.len - 1
            }
        };
        &mut self.m.vals[i]
    }
    pub fn or_insert_with<F: FnOnce() -> V>(self, f: F) -> &'a mut V {
        let i = match self.m.index_of(&self.k) {
            Some(i) => i,
            None => {
                self.m.insert(self.k, f());
                self.m.len - 1
            }
        };
        &mut self.m.vals[i]
    }
    pub fn or_default(self) -> &'a mut V {
        self.or_insert(V::default())
    }
    pub fn and_modify<F: FnOnce(&mut V)>(self, f: F) -> Self {
        if let Some(i) = self.m.index_of(&self.k) {
            f(&mut self.m.vals[i]);
        }
        self
    }
}

impl<K: Copy + Default + PartialEq, V: Copy + Default> Default for HashMap<K, V> {
    fn default() -> Self {
        Self::new()
    }
}

impl<'a, K: Copy + Default + PartialEq, V: Copy + Default> IntoIterator for &'a HashMap<K, V> {
    type Item = (&'a K, &'a V);
    type IntoIter = MapIter<'a, K, V>;
    fn into_iter(self) -> MapIter<'a, K, V> {
        self.iter()
    }
}

impl<K: Copy + Default + PartialEq, V: Copy + Default> core::ops::Index<&K> for HashMap<K, V> {
    type Output = V;
    fn index(&self, k: &K) -> &V {
        self.get(k).expect("verif_shim: HashMap model: key not found")
    }
}

pub struct MapIter<'a, K, V> {
    m: &'a HashMap<K, V>,
    i: usize,
}

impl<'a, K, V> Iterator for MapIter<'a, K, V> {
    type Item = (&'a K, &'a V);
    fn next(&mut self) -> Option<Self::Item> {
        if self.i >= self.m.len {
            return None;
        }
        let n = self.m.len;
        let idx = if cfg!(feature = "verif_rev_iter") { n - 1 - self.i } else { self.i };
        self.i += 1;
        Some((&self.m.keys[idx], &self.m.vals[idx]))
    }
}

impl<K: Copy + Default + PartialEq, V: Copy + Default> FromIterator<(K, V)> for HashMap<K, V> {
    fn from_iter<I: IntoIterator<Item = (K, V)>>(it: I) -> Self {
        let mut m = HashMap::new();
        for (k, v) in it {
            m.insert(k, v);
        }
        m
    }
}

pub struct HashSet<K> {
    keys: [K; MAP_CAP],
    len: usize,
}

impl<K: Copy + Default + PartialEq> HashSet<K> {
    pub fn new() -> Self {
        HashSet { keys: [K::default(); MAP_CAP], len: 0 }
    }
    pub fn len(&self) -> usize {
        self.len
    }
    pub fn contains(&self, k: &K) -> bool {
        let mut i = 0;
        while i < MAP_CAP {
            if i < self.len && self.keys[i] == *k {
                return true;
            }
            i += 1;
        }
        false
    }
    pub fn insert(&mut self, k: K) -> bool {
        if self.contains(&k) {
            return false;
        }
        assert!(self.len < MAP_CAP, "verif_shim: HashSet model capacity (32) exceeded");
        self.keys[self.len] = k;
        self.len += 1;
        true
    }
    pub fn is_empty(&self) -> bool {
        self.len == 0
    }
}

impl<K: Copy + Default + PartialEq> Default for HashSet<K> {
    fn default() -> Self {
        Self::new()
    }
}

impl<K: Copy + Default + PartialEq> FromIterator<K> for HashSet<K> {
    fn from_iter<I: IntoIterator<Item = K>>(it: I) -> Self {
        let mut s = HashSet::new();
        for k in it {
            s.insert(k);
        }
        s
    }
}

pub struct SetIntoIter<K> {
    keys: [K; MAP_CAP],
    len: usize,
    i: usize,
}

impl<K: Copy> Iterator for SetIntoIter<K> {
    type Item = K;
    fn next(&mut self) -> Option<K> {
        if self.i >= self.len {
            return None;
        }
        let idx = if cfg!(feature = "verif_rev_iter") { self.len - 1 - self.i } else { self.i };
        self.i += 1;
        Some(self.keys[idx])
    }
    fn size_hint(&self) -> (usize, Option<usize>) {
        (self.len - self.i, Some(self.len - self.i))
    }
}

impl<K: Copy> IntoIterator for HashSet<K> {
    type Item = K;
    type IntoIter = SetIntoIter<K>;
    fn into_iter(self) -> Self::IntoIter {
        SetIntoIter { keys: self.keys, len: self.len, i: 0 }
    }
}

// ---------------------------------------------------------------------------
// Vec model for the per-run k-mer list of kmer_minimisers.rs ONLY (injected
// there by one added import line that shadows the prelude's Vec inside that
// file).  The real alloc::vec::Vec with data-dependent `push` made CBMC
// re-allocate with symbolic sizes (10 GB at w=3, L=5).  Fixed capacity;
// exceeding it is a reported failure.
pub const KV_CAP: usize = 12;

#[derive(Clone, Copy)]
pub struct Vec<T> {
    buf: [T; KV_CAP],
    len: usize,
}

impl<T: Copy + Default> Default for Vec<T> {
    fn default() -> Self {
        Self::new()
    }
}

impl<T: Copy + Default> Vec<T> {
    pub fn new() -> Self {
        Vec { buf: [T::default(); KV_CAP], len: 0 }
    }
    pub fn with_capacity(_n: usize) -> Self {
        Self::new()
    }
    pub fn capacity(&self) -> usize {
        KV_CAP
    }
    pub fn reserve(&mut self, _n: usize) {}
    pub fn clear(&mut self) {
        self.len = 0;
    }
    pub fn truncate(&mut self, n: usize) {
        if n < self.len {
            self.len = n;
        }
    }
    pub fn push(&mut self, v: T) {
        assert!(self.len < KV_CAP, "verif_shim: Vec model capacity (12) exceeded");
        self.buf[self.len] = v;
        self.len += 1;
    }
    pub fn pop(&mut self) -> Option<T> {
        if self.len == 0 {
            None
        } else {
            self.len -= 1;
            Some(self.buf[self.len])
        }
    }
    pub fn extend_from_slice(&mut self, other: &[T]) {
        let mut i = 0;
        while i < other.len() {
            self.push(other[i]);
            i += 1;
        }
    }
    pub fn clone_from(&mut self, other: &Self) {
        *self = *other;
    }
    pub fn as_slice(&self) -> &[T] {
        &self.buf[..self.len]
    }
}

// the read API of a slice (len, is_empty, iter, first, last, get, indexing, ...) comes through Deref
impl<T> core::ops::Deref for Vec<T> {
    type Target = [T];
    fn deref(&self) -> &[T] {
        &self.buf[..self.len]
    }
}

impl<T> core::ops::DerefMut for Vec<T> {
    fn deref_mut(&mut self) -> &mut [T] {
        &mut self.buf[..self.len]
    }
}

impl<T: Copy + Default> Extend<T> for Vec<T> {
    fn extend<I: IntoIterator<Item = T>>(&mut self, it: I) {
        for v in it {
            self.push(v);
        }
    }
}

impl<T: Copy + Default> FromIterator<T> for Vec<T> {
    fn from_iter<I: IntoIterator<Item = T>>(it: I) -> Self {
        let mut v = Vec::new();
        for x in it {
            v.push(x);
        }
        v
    }
}

impl<T: PartialEq> PartialEq for Vec<T> {
    fn eq(&self, other: &Self) -> bool {
        if self.len != other.len {
            return false;
        }
        let mut i = 0;
        while i < KV_CAP {
            if i < self.len && self.buf[i] != other.buf[i] {
                return false;
            }
            i += 1;
        }
        true
    }
}

impl<T: core::fmt::Debug> core::fmt::Debug for Vec<T> {
    fn fmt(&self, f: &mut core::fmt::Formatter<'_>) -> core::fmt::Result {
        f.write_str("Vec(model)")
    }
}
