//! Stand-in for `bio` 2.0.3 used ONLY in /verif's Kani builds: the real crate
//! does not compile under kani-compiler (triple_accel: `assert` is ambiguous).
//! It mirrors the reader API of bio::io::{fasta,fastq} that a FASTA/FASTQ
//! consumer uses (Reader::{new,from_bufread,with_capacity,records,read},
//! Record::{new,id,desc,seq,qual,is_empty,check,clear}, the FastaRead /
//! FastqRead traits).  The record source is a harness-controlled list (`feed`),
//! so that ktio's own numbering / copy-out / statistics code can be executed;
//! NO FASTA/FASTQ parsing is modelled.  As in bio, `read` leaves the record
//! empty at the end of the input, and a record is "empty" only if id,
//! description and sequence are all empty (fed records always have an id).
pub mod io {
    pub const MAX_RECS: usize = 4;
    pub const MAX_SEQ: usize = 8;

    // Harness-controlled record list in FIXED static arrays (heap-backed lists made
    // CBMC's symbolic execution crawl).  Single-threaded by construction.
    static mut FEED_N: usize = 0;
    static mut FEED_IDS: [[u8; 2]; MAX_RECS] = [[0; 2]; MAX_RECS];
    static mut FEED_SEQS: [[u8; MAX_SEQ]; MAX_RECS] = [[0; MAX_SEQ]; MAX_RECS];
    static mut FEED_LENS: [usize; MAX_RECS] = [0; MAX_RECS];
    static QUALS: [u8; MAX_SEQ] = [b'I'; MAX_SEQ];

    /// Harness side: the records every subsequently created reader will yield.
    pub fn feed(n: usize, ids: &[[u8; 2]], seqs: &[[u8; MAX_SEQ]], lens: &[usize]) {
        assert!(n <= MAX_RECS && ids.len() >= n && seqs.len() >= n && lens.len() >= n);
        unsafe {
            FEED_N = n;
            let mut i = 0;
            while i < MAX_RECS {
                if i < n {
                    FEED_IDS[i] = ids[i];
                    FEED_SEQS[i] = seqs[i];
                    assert!(lens[i] <= MAX_SEQ);
                    FEED_LENS[i] = lens[i];
                }
                i += 1;
            }
        }
    }

    fn feed_len() -> usize {
        unsafe { FEED_N }
    }

    macro_rules! reader_mod {
        ($name:ident, $trait:ident, $res:ty, $ok:expr) => {
            pub mod $name {
                use std::io::{self, BufRead, BufReader, Read};
                use std::marker::PhantomData;

                #[derive(Debug)]
                pub enum Error {
                    ReadError,
                }
                impl std::fmt::Display for Error {
                    fn fmt(&self, f: &mut std::fmt::Formatter<'_>) -> std::fmt::Result {
                        f.write_str("read error")
                    }
                }
                impl std::error::Error for Error {}

                pub trait $trait {
                    fn read(&mut self, record: &mut Record) -> $res;
                }

                pub struct Reader<B> {
                    i: usize,
                    _r: PhantomData<B>,
                }
                impl<R: Read> Reader<BufReader<R>> {
                    pub fn new(_reader: R) -> Self {
                        Reader { i: 0, _r: PhantomData }
                    }
                    pub fn with_capacity(_capacity: usize, _reader: R) -> Self {
                        Reader { i: 0, _r: PhantomData }
                    }
                }
                impl<B: BufRead> Reader<B> {
                    pub fn from_bufread(_bufreader: B) -> Self {
                        Reader { i: 0, _r: PhantomData }
                    }
                    pub fn records(self) -> Records<B> {
                        Records { reader: self }
                    }
                }
                impl<B: BufRead> $trait for Reader<B> {
                    fn read(&mut self, record: &mut Record) -> $res {
                        record.clear();
                        if self.i < super::feed_len() {
                            record.idx = Some(self.i);
                            self.i += 1;
                        }
                        $ok
                    }
                }
                pub struct Records<B: BufRead> {
                    reader: Reader<B>,
                }
                #[derive(Debug, Clone, Default)]
                pub struct Record {
                    idx: Option<usize>,
                }
                #[allow(static_mut_refs)]
                impl Record {
                    pub fn new() -> Self {
                        Record { idx: None }
                    }
                    pub fn is_empty(&self) -> bool {
                        self.idx.is_none()
                    }
                    pub fn check(&self) -> Result<(), &str> {
                        if self.idx.is_none() {
                            Err("Expecting id for record.")
                        } else {
                            Ok(())
                        }
                    }
                    pub fn clear(&mut self) {
                        self.idx = None;
                    }
                    pub fn id(&self) -> &str {
                        match self.idx {
                            Some(i) => unsafe { std::str::from_utf8_unchecked(&super::FEED_IDS[i]) },
                            None => "",
                        }
                    }
                    pub fn desc(&self) -> Option<&str> {
                        None
                    }
                    pub fn seq(&self) -> &[u8] {
                        match self.idx {
                            Some(i) => unsafe { &super::FEED_SEQS[i][..super::FEED_LENS[i]] },
                            None => &[],
                        }
                    }
                    pub fn qual(&self) -> &[u8] {
                        match self.idx {
                            Some(i) => unsafe { &super::QUALS[..super::FEED_LENS[i]] },
                            None => &[],
                        }
                    }
                }
                impl<B: BufRead> Iterator for Records<B> {
                    type Item = io::Result<Record>;
                    fn next(&mut self) -> Option<Self::Item> {
                        let mut record = Record::new();
                        let _ = self.reader.read(&mut record);
                        if record.is_empty() {
                            None
                        } else {
                            Some(Ok(record))
                        }
                    }
                }
            }
        };
    }
    reader_mod!(fasta, FastaRead, std::io::Result<()>, Ok(()));
    reader_mod!(fastq, FastqRead, std::result::Result<(), Error>, Ok(()));
}
