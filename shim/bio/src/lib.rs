//! Stand-in for `bio` 2.0.3 used ONLY in /verif's Kani builds: the real crate
//! does not compile under kani-compiler (triple_accel: `assert` is ambiguous).
//! It offers the reader *types* ktio names.  The record source is a
//! harness-controlled list (`feed`), so that ktio's own numbering / copy-out /
//! statistics code can be executed; no FASTA/FASTQ parsing is modelled.
pub mod io {
    #[derive(Clone, Debug, Default)]
    pub struct RawRecord {
        pub id: String,
        pub seq: Vec<u8>,
    }

    // single-threaded by construction (Kani harnesses have one thread)
    static mut FEED: Option<Vec<RawRecord>> = None;

    /// Harness side: the records every subsequently created reader will yield.
    #[allow(static_mut_refs)]
    pub fn feed(recs: Vec<RawRecord>) {
        unsafe {
            FEED = Some(recs);
        }
    }

    #[allow(static_mut_refs)]
    fn snapshot() -> Vec<RawRecord> {
        unsafe {
            match &FEED {
                Some(v) => v.clone(),
                None => Vec::new(),
            }
        }
    }

    macro_rules! reader_mod {
        ($name:ident) => {
            pub mod $name {
                use super::RawRecord;
                use std::io::{self, BufRead, BufReader, Read};
                use std::marker::PhantomData;

                pub struct Reader<B> {
                    _r: PhantomData<B>,
                }
                impl<R: Read> Reader<BufReader<R>> {
                    pub fn new(_reader: R) -> Self {
                        Reader { _r: PhantomData }
                    }
                }
                impl<B: BufRead> Reader<B> {
                    pub fn records(self) -> Records<B> {
                        Records { recs: super::snapshot(), i: 0, _r: PhantomData }
                    }
                }
                pub struct Records<B> {
                    recs: Vec<RawRecord>,
                    i: usize,
                    _r: PhantomData<B>,
                }
                pub struct Record {
                    raw: RawRecord,
                }
                impl Record {
                    pub fn id(&self) -> &str {
                        &self.raw.id
                    }
                    pub fn seq(&self) -> &[u8] {
                        &self.raw.seq
                    }
                }
                impl<B: BufRead> Iterator for Records<B> {
                    type Item = io::Result<Record>;
                    fn next(&mut self) -> Option<Self::Item> {
                        if self.i < self.recs.len() {
                            let r = self.recs[self.i].clone();
                            self.i += 1;
                            Some(Ok(Record { raw: r }))
                        } else {
                            None
                        }
                    }
                }
            }
        };
    }
    reader_mod!(fasta);
    reader_mod!(fastq);
}
