//! Stand-in for `bio` 2.0.3 used ONLY in /verif's Kani builds: the real crate
//! does not compile under kani-compiler (triple_accel: `assert` is ambiguous).
//! It offers the reader *types* ktio names.  The record source is a
//! harness-controlled list (`feed`), so that ktio's own numbering / copy-out /
//! statistics code can be executed; no FASTA/FASTQ parsing is modelled.
pub mod io {
    pub const MAX_RECS: usize = 4;
    pub const MAX_SEQ: usize = 8;

    // Harness-controlled record list in FIXED static arrays (heap-backed lists made
    // CBMC's symbolic execution crawl).  Single-threaded by construction.
    static mut FEED_N: usize = 0;
    static mut FEED_IDS: [[u8; 2]; MAX_RECS] = [[0; 2]; MAX_RECS];
    static mut FEED_SEQS: [[u8; MAX_SEQ]; MAX_RECS] = [[0; MAX_SEQ]; MAX_RECS];
    static mut FEED_LENS: [usize; MAX_RECS] = [0; MAX_RECS];

    /// Harness side: the records every subsequently created reader will yield.
    pub fn feed(n: usize, ids: &[[u8; 2]], seqs: &[[u8; MAX_SEQ]], lens: &[usize]) {
        assert!(n <= MAX_RECS && ids.len() >= n && seqs.len() >= n && lens.len() >= n);
        unsafe {
            FEED_N = n;
            let mut i = 0;
            while i < MAX_RECS {
                if i < n {
                    FEED_IDS[i] = ids[i];
                    FEED_SEQS[i] = seqs[i];
                    assert!(lens[i] <= MAX_SEQ);
                    FEED_LENS[i] = lens[i];
                }
                i += 1;
            }
        }
    }

    fn feed_len() -> usize {
        unsafe { FEED_N }
    }

    macro_rules! reader_mod {
        ($name:ident) => {
            pub mod $name {
                use std::io::{self, BufRead, BufReader, Read};
                use std::marker::PhantomData;

                pub struct Reader<B> {
                    _r: PhantomData<B>,
                }
                impl<R: Read> Reader<BufReader<R>> {
                    pub fn new(_reader: R) -> Self {
                        Reader { _r: PhantomData }
                    }
                }
                impl<B: BufRead> Reader<B> {
                    pub fn records(self) -> Records<B> {
                        Records { i: 0, _r: PhantomData }
                    }
                }
                pub struct Records<B> {
                    i: usize,
                    _r: PhantomData<B>,
                }
                pub struct Record {
                    idx: usize,
                }
                #[allow(static_mut_refs)]
                impl Record {
                    pub fn id(&self) -> &str {
                        unsafe { std::str::from_utf8_unchecked(&super::FEED_IDS[self.idx]) }
                    }
                    pub fn seq(&self) -> &[u8] {
                        unsafe { &super::FEED_SEQS[self.idx][..super::FEED_LENS[self.idx]] }
                    }
                }
                impl<B: BufRead> Iterator for Records<B> {
                    type Item = io::Result<Record>;
                    fn next(&mut self) -> Option<Self::Item> {
                        if self.i < super::feed_len() {
                            let r = Record { idx: self.i };
                            self.i += 1;
                            Some(Ok(r))
                        } else {
                            None
                        }
                    }
                }
            }
        };
    }
    reader_mod!(fasta);
    reader_mod!(fastq);
}
