#!/bin/bash
# Offline set-up of /verif: sanity-check the tool chain and warm a cache of the
# Kani build of the registry dependencies (./check works without the cache,
# only slower).  Nothing here is needed from the network.
set -u
cd "$(dirname "$(readlink -f "$0")")"
export CARGO_NET_OFFLINE=true
for t in cargo python3 rsync cbmc; do
  command -v $t >/dev/null || { echo "setup: missing tool $t"; exit 1; }
done
cargo kani --version || { echo "setup: cargo kani not usable"; exit 1; }
python3 tool/warm_cache.py || echo "setup: cache warm-up failed (checks will build cold)"
exit 0
