#!/usr/bin/env python3
"""Driver of the solver-based checks (see /verif/DESIGN.md section 1).

  check <ID> [--tier quick|thorough] [--replay <file>] [--only <regex>] [--keep]

exit 0: every core harness instance of the property was discharged by the
        solver (UNSAT within the bounds, unwinding assertions on, required
        cover witnesses satisfied) and no reproduced violation exists that is
        not listed in known_findings.txt
exit 1: a counterexample was found by the solver AND reproduced natively
        against the real code ("VIOLATION property=<ID> replay=<path>")
exit 2: inconclusive (time-out / out of memory / tool error / counterexample
        that does not reproduce natively = error of the encoding)
"""
import argparse
import hashlib
import json
import os
import re
import shutil
import signal
import subprocess
import sys
import tempfile
import threading
import time

HERE = os.path.dirname(os.path.abspath(__file__))
VERIF = os.path.dirname(HERE)
REPO = os.environ.get("VERIF_REPO", "/repo")
sys.path.insert(0, HERE)

import kani_parse  # noqa: E402
import props  # noqa: E402
import inject  # noqa: E402

ENV = dict(os.environ)
ENV["CARGO_NET_OFFLINE"] = "true"
ENV.pop("RUSTFLAGS", None)

SCRATCH_ROOT = os.environ.get("VERIF_SCRATCH", "/var/tmp")
MEM_CAP_KB = int(os.environ.get("VERIF_CBMC_RSS_GB", "12")) * 1024 * 1024
JOBS = int(os.environ.get("VERIF_JOBS", "16"))
MEM_BUDGET_GB = int(os.environ.get("VERIF_MEM_BUDGET_GB", "48"))

_cleanup_dirs = []
_children = []


def log(*a):
    print(*a, flush=True)


def cleanup():
    for p in _children:
        try:
            os.killpg(p.pid, signal.SIGKILL)
        except Exception:
            pass
    for d in _cleanup_dirs:
        shutil.rmtree(d, ignore_errors=True)


def on_signal(signum, frame):
    cleanup()
    sys.exit(2)


def run_cmd(cmd, cwd, logf, timeout=None, env=None):
    """Run in its own process group, tee to a log file, return (rc, timed_out)."""
    with open(logf, "w") as fh:
        p = subprocess.Popen(
            cmd, cwd=cwd, stdout=fh, stderr=subprocess.STDOUT, env=env or ENV, start_new_session=True
        )
        _children.append(p)
        try:
            rc = p.wait(timeout=timeout)
            return rc, False
        except subprocess.TimeoutExpired:
            try:
                os.killpg(p.pid, signal.SIGKILL)
            except Exception:
                pass
            p.wait()
            return -9, True
        finally:
            _children.remove(p)


class MemWatchdog(threading.Thread):
    """Kills any cbmc process (started below our scratch dir) whose resident
    set exceeds the cap; Kani then reports that harness as failed without
    results, which the parser classifies as inconclusive."""

    def __init__(self, marker):
        super().__init__(daemon=True)
        self.marker = marker
        self.stop = False
        self.killed = []
        self.peak_kb = 0
        self.limited = set()

    def run(self):
        while not self.stop:
            try:
                out = subprocess.run(
                    ["ps", "-eo", "pid,rss,args"], capture_output=True, text=True
                ).stdout
                for line in out.splitlines()[1:]:
                    parts = line.split(None, 2)
                    if len(parts) < 3:
                        continue
                    pid, rss, args = parts
                    if self.marker in args and (args.startswith("cbmc") or "/cbmc " in args or " cbmc " in args):
                        rss = int(rss)
                        if pid not in self.limited:
                            # hard address-space cap as well: CBMC can allocate tens of GB in one burst
                            self.limited.add(pid)
                            try:
                                import resource
                                cap = (MEM_CAP_KB + 2 * 1024 * 1024) * 1024
                                resource.prlimit(int(pid), resource.RLIMIT_AS, (cap, cap))
                            except Exception:
                                pass
                        self.peak_kb = max(self.peak_kb, rss)
                        if rss > MEM_CAP_KB:
                            try:
                                os.kill(int(pid), signal.SIGKILL)
                                self.killed.append((int(pid), rss))
                            except Exception:
                                pass
            except Exception:
                pass
            time.sleep(0.5)


def snapshot(scratch):
    ws = os.path.join(scratch, "ws")
    subprocess.check_call(
        ["rsync", "-a", "--exclude", "/target", "--exclude", ".git", "--exclude", "/test_data/computed_*", REPO + "/", ws + "/"]
    )
    return ws


def tree_fingerprint(ws):
    h = hashlib.sha256()
    for root, dirs, files in os.walk(ws):
        dirs.sort()
        if "/target" in root:
            continue
        for f in sorted(files):
            if f.endswith(".rs") or f == "Cargo.toml":
                p = os.path.join(root, f)
                h.update(p[len(ws):].encode())
                h.update(open(p, "rb").read())
    return h.hexdigest()[:16]


def seed_target(ws_target, kind):
    """Hard-link a warmed-up dependency build (made by ./setup.sh) if present."""
    cache = os.path.join(VERIF, ".cache", kind)
    if os.path.isdir(cache) and not os.path.exists(ws_target):
        rc = subprocess.call(["cp", "-a", cache, ws_target])
        return rc == 0
    return False


BUCKETS = [6, 12, 36, 64, 128]


def bucket(b):
    """Per-loop bounds are rounded up to a few classes so that instances with similar
    needs share one cargo-kani invocation (the unwindset is a per-invocation option)."""
    for x in BUCKETS:
        if b <= x:
            return x
    return b


def unwind_signature(i):
    return tuple(sorted((f, rx, bucket(b)) for (f, rx, b) in i.unwindset))


_LOOPS_CACHE = {}


def list_loops(ws, scratch, pkg, feats, all_insts):
    """Loop ids of the goto binaries of every harness of this package (one codegen run)."""
    key = (pkg, feats)
    if key in _LOOPS_CACHE:
        return _LOOPS_CACHE[key]
    tdir = os.path.join(scratch, "kt")
    seed_target(tdir, "kani-target")
    if INJ is not None:
        INJ.set_kani()
    cmd = ["cargo", "kani", "-p", pkg, "--target-dir", tdir, "--only-codegen", "--exact"]
    for i in all_insts:
        cmd += ["--harness", i.full_name()]
    if feats:
        cmd += ["--features", ",".join(feats)]
    if any("kani::stub" in a for i in all_insts for a in i.attrs):
        cmd += ["-Z", "stubbing"]
    logf = os.path.join(scratch, "kani-codegen-%s.log" % pkg)
    rc, to = run_cmd(cmd, ws, logf, timeout=1800)
    loops = []
    if rc == 0:
        import glob
        seen = set()
        for i in all_insts:
            cands = glob.glob(os.path.join(tdir, "kani", "*", "debug", "build", pkg, "*", "out", "*%d%s.out" % (len(i.name), i.name)))
            cands = [c for c in cands if not c.endswith(".symtab.out")]
            if not cands:
                continue
            cands.sort(key=os.path.getmtime)
            out = subprocess.run(["cbmc", "--show-loops", cands[-1]], capture_output=True, text=True).stdout
            for t in re.findall(r"^Loop (\S+):\n\s+file (\S+) line (\d+)", out, re.M):
                if t not in seen:
                    seen.add(t)
                    loops.append(t)
    _LOOPS_CACHE[key] = loops
    return loops


def discover_unwindset(ws, scratch, pkg, insts, feats=(), all_insts=None):
    """Per-loop unwind bounds for loops of the REAL code whose trip count is
    bounded by an instance parameter (e.g. `for j in 0..self.buff.len()`,
    len <= w-m+1).  Loop ids are read from the goto binaries (`cbmc --show-loops`)
    and matched by source text; unwinding assertions stay on, so a bound that is
    too small for the current code is reported, never silently truncating."""
    need = [i for i in insts if i.unwindset]
    if not need:
        return "", []
    loops = list_loops(ws, scratch, pkg, tuple(feats), [i for i in (all_insts or insts) if i.unwindset])
    if not loops:
        return "", ["loop discovery failed (codegen error or no loops): global unwind bound only"]
    bounds = {}
    for i in need:
        for (fsuf, rx, b) in i.unwindset:
            key = (fsuf, rx)
            bounds[key] = max(bounds.get(key, 0), bucket(b))
    parts, notes = [], []
    for (fsuf, rx), b in sorted(bounds.items()):
        hit = 0
        for lid, f, line in loops:
            if not f.endswith(fsuf):
                continue
            try:
                src = open(os.path.join(ws, f)).read().splitlines()[int(line) - 1]
            except Exception:
                continue
            if re.search(rx, src):
                parts.append("%s:%d" % (lid, b))
                hit += 1
        notes.append("unwindset %s /%s/ -> %d loop(s) bound %d" % (fsuf, rx, hit, b))
    return ",".join(parts), notes


def run_kani(ws, scratch, pkg, insts, tag, extra_args=(), playback=False, jobs=None, unwindset=""):
    if INJ is not None:
        INJ.set_kani()
    tdir = os.path.join(scratch, "kt")
    seed_target(tdir, "kani-target")
    # result files of a previous package run must not be mistaken for ours
    shutil.rmtree(os.path.join(tdir, "result_output_dir"), ignore_errors=True)
    cmd = ["cargo", "kani", "-p", pkg, "--target-dir", tdir, "--no-assertion-reach-checks", "--exact"]
    for i in insts:
        cmd += ["--harness", i.full_name()]
    cmd += list(extra_args)
    tmax = max(i.timeout for i in insts)
    if playback:
        cmd += ["-Z", "concrete-playback", "--concrete-playback=print", "-Z", "unstable-options", "--harness-timeout", "%ds" % tmax]
    else:
        # side-by-side solvers are limited by their expected memory (48 GB budget on this 62 GB machine)
        heavy = max([getattr(i, "mem", 2) for i in insts] + [1])
        j = jobs or max(1, min(JOBS, len(insts), int(MEM_BUDGET_GB // heavy)))
        cmd += [
            "-j", str(j), "--output-format", "terse", "--output-into-files",
            "-Z", "unstable-options", "--harness-timeout", "%ds" % tmax,
        ]
    feats = sorted({f for i in insts for f in i.features})
    if feats:
        cmd += ["--features", ",".join(feats)]
    if any("kani::stub" in a for i in insts for a in i.attrs):
        cmd += ["-Z", "stubbing"]
    if unwindset:
        cmd += ["--cbmc-args", "--unwindset", unwindset]  # must be the last flag
    logf = os.path.join(scratch, "kani-%s.log" % tag)
    heavy_w = max([getattr(i, "mem", 2) for i in insts] + [1])
    par = max(1, min(JOBS, int(MEM_BUDGET_GB // heavy_w)))
    waves = (len(insts) + par - 1) // par
    overall = 600 + tmax * waves + 120
    t0 = time.time()
    rc, to = run_cmd(cmd, ws, logf, timeout=overall)
    dt = time.time() - t0
    return rc, to, logf, tdir, dt


def collect_results(tdir, insts, logf):
    res = {}
    rdir = os.path.join(tdir, "result_output_dir")
    logtxt = open(logf, errors="replace").read()
    compile_error = None
    if re.search(r"^error(\[E\d+\])?:", logtxt, re.M) and "Checking harness" not in logtxt:
        m = re.search(r"^error.*(?:\n.*){0,12}", logtxt, re.M)
        compile_error = m.group(0) if m else "compile error"
    for i in insts:
        f = os.path.join(rdir, i.full_name())
        if os.path.exists(f):
            r = kani_parse.parse_result_text(open(f, errors="replace").read())
        else:
            r = kani_parse.parse_result_text("")
            r["reason"] = "no result file" + (" (compile error of the injected snapshot)" if compile_error else "")
        res[i.name] = r
    return res, compile_error


def required_covers_ok(inst, r):
    missing = []
    for c in r["covers"]:
        d = c["desc"]
        if d.startswith("req:") and c["status"] != "SATISFIED":
            missing.append(d)
        if d.startswith("opt:") and d in inst.require_opt and c["status"] != "SATISFIED":
            missing.append(d)
    nreq = sum(1 for c in r["covers"] if c["desc"].startswith("req:"))
    if nreq == 0:
        missing.append("(harness has no required cover witness)")
    return missing


def write_values(path, values):
    with open(path, "w") as fh:
        for v in values:
            fh.write(" ".join(str(b) for b in v) + "\n")


INJ = None


def build_replay(ws, scratch, P, release):
    if INJ is not None:
        INJ.set_native(REPO)
    tdir = os.path.join(scratch, "rt")
    env = dict(ENV)
    env["RUSTFLAGS"] = "--cfg verif_replay -A warnings"
    cmd = ["cargo", "build", "--offline", "-p", "verif_replay", "--target-dir", tdir]
    if release:
        cmd.append("--release")
    logf = os.path.join(scratch, "replay-build-%s.log" % ("rel" if release else "dev"))
    rc, to = run_cmd(cmd, ws, logf, timeout=1800, env=env)
    if rc != 0:
        return None, open(logf, errors="replace").read()[-3000:]
    return os.path.join(tdir, "release" if release else "debug", "verif_replay"), ""


def run_replay(binp, pkg, name, valfile, timeout=120):
    try:
        p = subprocess.run([binp, pkg, name, valfile], capture_output=True, text=True, timeout=timeout, errors="replace")
        return p.returncode, (p.stdout + p.stderr)[-4000:]
    except subprocess.TimeoutExpired:
        return -9, "replay timed out"


def classify_replay(rc, out, failed_desc):
    """-> (reproduced: bool, how: str)"""
    if rc == 1 and "REPLAY-FAIL:" in out:
        lab = out.split("REPLAY-FAIL:", 1)[1].splitlines()[0].strip()
        return True, "assertion of the harness fails natively: " + lab
    if rc == 101 or "panicked at" in out:
        m = re.search(r"panicked at.*(?:\n.*)?", out)
        return True, "real code panics natively: " + (m.group(0).replace("\n", " ") if m else "")
    if rc < 0 and rc != -9:
        return True, "real code dies natively with signal %d" % (-rc)
    if rc == 0 and "REPLAY-PASS" in out:
        return False, "native run passes every assertion"
    return False, "replay error rc=%d: %s" % (rc, out[-300:])


def decode_values(values):
    """Readable rendering of the solver's assignment, in any()-call order."""
    out, run = [], bytearray()
    for v in values:
        if len(v) == 1:
            run.append(v[0])
            continue
        if run:
            out.append(repr(bytes(run)))
            run = bytearray()
        out.append(str(int.from_bytes(bytes(v), "little")))
    if run:
        out.append(repr(bytes(run)))
    return " ".join(out)


def load_known():
    known, fixed = [], []
    p = os.path.join(VERIF, "known_findings.txt")
    if os.path.exists(p):
        for line in open(p):
            line = line.strip()
            if not line or line.startswith("#"):
                continue
            m = re.match(r"known:\s+property=(\S+)\s+role=(\S+)\s+(.*)", line)
            if m:
                known.append({"property": m.group(1), "role": m.group(2), "what": m.group(3)})
            elif line.startswith("fixed:"):
                fixed.append(line)
    return known, fixed


def main():
    ap = argparse.ArgumentParser()
    ap.add_argument("prop")
    ap.add_argument("--tier", default=os.environ.get("VERIF_TIER", "quick"), choices=["quick", "thorough"])
    ap.add_argument("--replay")
    ap.add_argument("--only", help="regex on instance names (debugging; evidence is marked partial)")
    ap.add_argument("--keep", action="store_true", help="keep the scratch directory")
    ap.add_argument("--no-evidence", action="store_true")
    ap.add_argument("--codegen-only", action="store_true", help="developer option: only compile every harness instance of the tier (no solving)")
    args = ap.parse_args()
    seed = int(os.environ.get("VERIF_SEED", "0") or 0)
    pid = args.prop
    if pid not in props.PROPS:
        log("unknown or not-applicable property", pid)
        return 2
    P = props.PROPS[pid]
    signal.signal(signal.SIGTERM, on_signal)
    signal.signal(signal.SIGINT, on_signal)
    t_start = time.time()
    os.makedirs(SCRATCH_ROOT, exist_ok=True)
    scratch = tempfile.mkdtemp(prefix="kmv.", dir=SCRATCH_ROOT)
    if not args.keep:
        _cleanup_dirs.append(scratch)
    try:
        return body(args, pid, P, seed, scratch, t_start)
    finally:
        cleanup()


def body(args, pid, P, seed, scratch, t_start):
    tier = args.tier
    ws = snapshot(scratch)
    fp = tree_fingerprint(ws)
    insts = P.instances(tier, seed)
    if args.replay:
        return do_replay_file(args, pid, P, ws, scratch, insts)
    if args.only:
        insts = [i for i in insts if re.search(args.only, i.name)]
    log("[%s] tier=%s seed=%d instances=%d (core %d) tree=%s" % (pid, tier, seed, len(insts), sum(1 for i in insts if i.core), fp))

    global INJ
    inj = inject.Injector(ws, VERIF, scratch)
    INJ = inj
    try:
        inj.apply(P, insts)
    except inject.InjectError as e:
        log("[%s] INCONCLUSIVE: cannot inject harness into the current tree: %s" % (pid, e))
        write_evidence(args, pid, P, tier, seed, insts, {}, [], [], t_start, fp, note="injection failed: %s" % e, extra={})
        return 2
    extra = inj.extra_evidence

    if args.codegen_only:
        bad = 0
        builds = []
        for i in insts:
            key = (i.pkg, tuple(sorted(i.features)))
            if key not in builds:
                builds.append(key)
        for (pkg, feats) in builds:
            pin = [i for i in insts if i.pkg == pkg and tuple(sorted(i.features)) == feats]
            tdir = os.path.join(scratch, "kt")
            seed_target(tdir, "kani-target")
            cmd = ["cargo", "kani", "-p", pkg, "--target-dir", tdir, "--only-codegen", "--exact"]
            for i in pin:
                cmd += ["--harness", i.full_name()]
            if feats:
                cmd += ["--features", ",".join(feats)]
            if any("kani::stub" in a for i in pin for a in i.attrs):
                cmd += ["-Z", "stubbing"]
            logf = os.path.join(scratch, "codegen-%s.log" % pkg)
            rc, to = run_cmd(cmd, ws, logf, timeout=3000)
            txt = open(logf, errors="replace").read()
            errs = re.findall(r"^error.*", txt, re.M)
            log("[%s] codegen %s (%d harnesses, features=%s): rc=%d %s" % (pid, pkg, len(pin), list(feats), rc, errs[:3]))
            bad += (rc != 0)
        return 0 if bad == 0 else 2

    wd = MemWatchdog(scratch)
    wd.start()
    results = {}
    compile_errors = []
    # group = one cargo-kani invocation: same package, features, stub use, and per-loop bounds that do
    # not contradict each other (an unwindset entry for a loop a harness does not contain is ignored)
    groups = []  # [pkg, feats, {pattern: bucket}, stubbed, [instances]]
    for i in sorted(insts, key=lambda i: -len(i.unwindset)):
        sig = {(f, rx): b for (f, rx, b) in unwind_signature(i)}
        stubbed = (any("kani::stub" in a for a in i.attrs), getattr(i, "mem", 2) > 4)
        feats = tuple(sorted(i.features))
        for g in groups:
            if g[0] == i.pkg and g[1] == feats and g[3] == stubbed and all(g[2].get(k, v) == v for k, v in sig.items()):
                g[2].update(sig)
                g[4].append(i)
                break
        else:
            groups.append([i.pkg, feats, dict(sig), stubbed, [i]])
    kani_wall = 0.0
    unwind_notes = []
    unwindsets = {}
    for gi, (pkg, feats, usig, stubbed, pin) in enumerate(groups):
        tag = "%s-g%d" % (pkg, gi) + ("-" + "-".join(f.replace("/", "_") for f in feats) if feats else "")
        # longest first so that the tail of the schedule is short
        pin.sort(key=lambda i: -i.cost)
        same_build = [i for i in insts if i.pkg == pkg and tuple(sorted(i.features)) == feats]
        uws, unotes = discover_unwindset(ws, scratch, pkg, pin, feats, same_build)
        unwind_notes.extend(unotes)
        unwindsets[pkg] = uws
        for i in pin:
            i.uws = uws
        rc, to, logf, tdir, dt = run_kani(ws, scratch, pkg, pin, tag, unwindset=uws)
        kani_wall += dt
        res, cerr = collect_results(tdir, pin, logf)
        if uws:
            # a per-loop bound that is too small for the current code: retry those with the global bound only
            again = [i for i in pin if res[i.name]["unwind_failed"]]
            if again:
                unwind_notes.append("re-ran without per-loop bounds: " + ", ".join(i.name for i in again))
                rc, to, logf, tdir, dt = run_kani(ws, scratch, pkg, again, tag + "-nounwindset")
                kani_wall += dt
                res2, _ = collect_results(tdir, again, logf)
                res.update(res2)
                for i in again:
                    i.used_unwindset = False
        if cerr:
            compile_errors.append((pkg, cerr))
        if to:
            for i in pin:
                if res[i.name]["verdict"] == "inconclusive" and not res[i.name]["reason"]:
                    res[i.name]["reason"] = "overall time limit of the run"
        results.update(res)
        if args.keep:
            shutil.copy(logf, os.path.join(VERIF, "last-kani-%s-%s.log" % (pid, tag)))
    wd.stop = True

    # ---- classify
    discharged, inconclusive, failed = [], [], []
    for i in insts:
        r = results[i.name]
        if i.expect_fail:
            # characterisation instance: the failure IS the expected answer
            if r["verdict"] == "failed" and r["failed"] and all(re.search(i.expect_fail, c["desc"]) for c in r["failed"]):
                r["verdict"] = "success"
                r["reason"] = "expected failure observed (characterisation): " + r["failed"][0]["desc"]
                r["failed"] = []
                discharged.append(i)
            else:
                r["reason"] = "characterisation instance did not fail as expected (%s)" % r["verdict"]
                r["verdict"] = "inconclusive"
                inconclusive.append(i)
            continue
        if r["verdict"] == "success":
            miss = required_covers_ok(i, r)
            if miss:
                r["verdict"] = "inconclusive"
                r["reason"] = "vacuous: cover witness not satisfied: " + "; ".join(miss)
                inconclusive.append(i)
            else:
                discharged.append(i)
        elif r["verdict"] == "failed":
            failed.append(i)
        else:
            inconclusive.append(i)

    for pkg, cerr in compile_errors:
        log("[%s] injected snapshot of package %s does not compile under Kani:\n%s" % (pid, pkg, cerr[:1500]))

    # ---- counterexamples: concrete playback + native replay
    violations, known_hits, unreproduced = [], [], []
    if failed:
        violations, known_hits, unreproduced = handle_failures(args, pid, P, ws, scratch, failed, results, fp, unwindsets)

    for i in insts:
        r = results[i.name]
        log(
            "  %-34s %-12s %6s s  checks=%d covers=%s %s"
            % (
                i.name,
                r["verdict"].upper(),
                ("%.1f" % r["time_s"]) if r["time_s"] else "-",
                r["checks_total"],
                "%d/%d" % (sum(1 for c in r["covers"] if c["status"] == "SATISFIED"), len(r["covers"])),
                ("[" + r["reason"] + "]") if r["reason"] else "",
            )
        )

    core_bad = [i for i in inconclusive if i.core]
    write_evidence(
        args, pid, P, tier, seed, insts, results, violations, known_hits, t_start, fp,
        note="", extra=dict(extra, kani_wall_s=round(kani_wall, 1), peak_cbmc_rss_mb=wd.peak_kb // 1024,
                            killed_for_memory=len(wd.killed), unreproduced=unreproduced, per_loop_unwind=unwind_notes),
    )
    for k in known_hits:
        log("KNOWN-FINDING: property=%s %s" % (pid, k))
    if violations:
        for v in violations:
            log("VIOLATION property=%s replay=%s" % (pid, v["replay"]))
            log("   " + v["what"])
        return 1
    if unreproduced:
        log("[%s] INCONCLUSIVE: solver counterexample(s) did not reproduce natively (encoding/shim error, not a finding):" % pid)
        for u in unreproduced:
            log("   " + u)
        return 2
    if core_bad:
        log("[%s] INCONCLUSIVE: %d core instance(s) not discharged: %s" % (pid, len(core_bad), ", ".join(i.name for i in core_bad)))
        return 2
    if not discharged:
        log("[%s] INCONCLUSIVE: nothing discharged" % pid)
        return 2
    opt_bad = [i for i in inconclusive if not i.core]
    log(
        "[%s] PASS: %d/%d instances discharged (UNSAT within bounds)%s; wall %.0f s"
        % (pid, len(discharged), len(insts), ("; %d optional deepening instance(s) inconclusive" % len(opt_bad)) if opt_bad else "", time.time() - t_start)
    )
    return 0


def handle_failures(args, pid, P, ws, scratch, failed, results, fp, unwindsets):
    known, _fixed = load_known()
    violations, known_hits, unreproduced = [], [], []
    bins = {}
    os.makedirs(os.path.join(VERIF, "replays"), exist_ok=True)
    # playback runs are sequential (Kani refuses -j with concrete playback): cap the work
    seen_roles = set()
    budget = int(os.environ.get("VERIF_MAX_PLAYBACKS", "6"))
    failed = sorted(failed, key=lambda i: i.cost)
    for inst in failed:
        r = results[inst.name]
        descs = [c["desc"] for c in r["failed"]]
        roles = {P.role_of(d) for d in descs}
        if budget <= 0 or (roles <= seen_roles and len(seen_roles) > 0):
            r["playback"] = "skipped (same failing checks already replayed on a smaller instance)"
            continue
        budget -= 1
        rc, to, logf, tdir, dt = run_kani(ws, scratch, inst.pkg, [inst], "pb-" + inst.name, playback=True,
                                             unwindset=getattr(inst, "uws", "") if getattr(inst, "used_unwindset", True) else "")
        txt = open(logf, errors="replace").read()
        pbs = [pb for pb in kani_parse.parse_playback(txt) if not pb["check_desc"].startswith(("req:", "opt:"))]
        if not pbs:
            unreproduced.append("%s: failed checks %s but no concrete playback could be obtained" % (inst.name, descs[:3]))
            continue
        for pb in pbs[:4]:
            role = P.role_of(pb["check_desc"])
            if role in seen_roles:
                continue
            valfile = os.path.join(scratch, "vals-%s-%d.txt" % (inst.name, len(seen_roles)))
            write_values(valfile, pb["values"])
            outcome = {}
            reproduced = False
            how = ""
            for rel in (False, True):
                key = "release" if rel else "dev"
                if key not in bins:
                    b, err = build_replay(ws, scratch, P, rel)
                    bins[key] = (b, err)
                b, err = bins[key]
                if b is None:
                    outcome[key] = "replay build failed: " + err[-400:]
                    continue
                rc2, out = run_replay(b, inst.pkg, inst.name, valfile)
                rep, h = classify_replay(rc2, out, pb["check_desc"])
                outcome[key] = h
                if rep:
                    reproduced = True
                    how = how or ("%s profile: %s" % (key, h))
            seen_roles.add(role)
            decoded = decode_values(pb["values"])
            if not reproduced:
                unreproduced.append("%s / %s : %s" % (inst.name, pb["check_desc"], outcome))
                continue
            what = "%s [%s] %s ; input=%s ; %s" % (inst.name, role, pb["check_desc"], decoded, how)
            kmatch = [k for k in known if k["property"] == pid and k["role"] == role]
            if kmatch:
                known_hits.append("role=%s %s (instance %s, input %s)" % (role, kmatch[0]["what"], inst.name, decoded))
                continue
            h = hashlib.sha256((inst.name + role + json.dumps(pb["values"])).encode()).hexdigest()[:10]
            rpath = os.path.join(VERIF, "replays", "%s-%s.json" % (pid, h))
            json.dump(
                {
                    "property": pid, "pkg": inst.pkg, "harness": inst.name, "role": role,
                    "failed_check": pb["check_desc"], "values": pb["values"], "decoded_input": decoded,
                    "native_outcome": outcome, "tree": fp, "instance": inst.desc,
                },
                open(rpath, "w"), indent=1,
            )
            violations.append({"replay": rpath, "what": what, "role": role, "instance": inst.name})
    return violations, known_hits, unreproduced


def do_replay_file(args, pid, P, ws, scratch, insts):
    rp = json.load(open(args.replay))
    name = rp["harness"]
    # the instance may belong to either tier
    cand = {i.name: i for t in ("quick", "thorough") for i in P.instances(t, 0)}
    if name not in cand:
        log("replay: harness instance %s is not defined for %s" % (name, pid))
        return 2
    inst = cand[name]
    global INJ
    inj = inject.Injector(ws, VERIF, scratch)
    INJ = inj
    try:
        inj.apply(P, [inst])
    except inject.InjectError as e:
        log("replay: cannot inject: %s" % e)
        return 2
    valfile = os.path.join(scratch, "vals.txt")
    write_values(valfile, rp["values"])
    any_rep = False
    for rel in (False, True):
        b, err = build_replay(ws, scratch, P, rel)
        if b is None:
            log("replay build failed:\n" + err)
            return 2
        rc, out = run_replay(b, inst.pkg, name, valfile)
        rep, how = classify_replay(rc, out, rp.get("failed_check", ""))
        log("replay (%s): %s" % ("release" if rel else "dev", how))
        any_rep = any_rep or rep
    if any_rep:
        log("VIOLATION property=%s replay=%s" % (pid, os.path.abspath(args.replay)))
        return 1
    log("replay: does not reproduce on the current tree")
    return 0


def write_evidence(args, pid, P, tier, seed, insts, results, violations, known_hits, t_start, fp, note, extra):
    if args.no_evidence:
        return
    os.makedirs(os.path.join(VERIF, "evidence"), exist_ok=True)
    per = []
    n_checks = 0
    n_discharged = 0
    solver_s = 0.0
    for i in insts:
        r = results.get(i.name)
        if not r:
            per.append({"harness": i.name, "bounds": i.desc, "verdict": "not run"})
            continue
        ok = r["verdict"] == "success"
        if ok:
            n_discharged += 1
            n_checks += r["checks_total"]
        if r["time_s"]:
            solver_s += r["time_s"]
        per.append(
            {
                "harness": i.name,
                "package": i.pkg,
                "bounds": i.desc,
                "unwind": i.unwind,
                "core": i.core,
                "verdict": r["verdict"],
                "reason": r["reason"],
                "cbmc_checks_decided": r["checks_total"],
                "failed_checks": [c["desc"] + " @ " + c["loc"] for c in r["failed"]][:8],
                "covers": {c["desc"]: c["status"] for c in r["covers"]},
                "cbmc_time_s": r["time_s"],
            }
        )
    ev = {
        "property_id": pid,
        "tier": tier,
        "seed": seed,
        "level": "model_checking",
        "coverage": {
            "evaluations": n_checks,
            "distinct_nontrivial": n_discharged,
            "rule": "one case = one harness instance (concrete k / (w,m) / N / mode, every other input symbolic) decided by CBMC+CaDiCaL over the "
            "compiled real code; evaluations = number of assertions, safety checks and cover queries CBMC decided inside discharged instances; an "
            "instance counts as non-trivial only if it was discharged (0 failed checks, unwinding assertions passed) AND all its required "
            "cover witnesses (incl. 'end of harness reached') were SATISFIED",
            "samples": per,
            "exhaustive": False,
            "functions_encoded": P.functions,
            "instances_total": len(insts),
            "instances_discharged": n_discharged,
            "instances_inconclusive": sum(1 for i in insts if results.get(i.name, {}).get("verdict") == "inconclusive"),
            "instances_failed": sum(1 for i in insts if results.get(i.name, {}).get("verdict") == "failed"),
            "solver_time_s": round(solver_s, 1),
            "outside_the_bounds": P.outside,
            "engine": "Kani 0.68.0 / CBMC 6.11.0 / CaDiCaL; unwinding assertions ON; default Kani checks ON; --no-assertion-reach-checks",
            "tree_fingerprint": fp,
            "partial_run_filter": args.only or "",
            "note": note,
        },
        "assumptions": P.assumptions,
        "wall_s": round(time.time() - t_start, 1),
        "violations": len(violations),
    }
    ev["coverage"].update(extra or {})
    ev["coverage"]["known_findings_hit"] = known_hits
    ev["coverage"]["violations_detail"] = violations
    with open(os.path.join(VERIF, "evidence", pid + ".json"), "w") as fh:
        json.dump(ev, fh, indent=1)


if __name__ == "__main__":
    sys.exit(main())
