#!/usr/bin/env python3-vt
"""Validate MANIFEST.json and every evidence file against the schemas in /root/.vp."""
import glob, json, sys
import jsonschema
ok = True
jsonschema.validate(json.load(open("/verif/MANIFEST.json")), json.load(open("/root/.vp/MANIFEST.schema.json")))
es = json.load(open("/root/.vp/EVIDENCE.schema.json"))
m = json.load(open("/verif/MANIFEST.json"))
for c in m["checks"]:
    f = c["evidence_file"]
    try:
        e = json.load(open(f))
        jsonschema.validate(e, es)
        print("%s ok  tier=%s level=%s evaluations=%d distinct_nontrivial=%d violations=%s wall=%ss" % (
            c["property_id"], e["tier"], e["level"], e["coverage"]["evaluations"], e["coverage"]["distinct_nontrivial"], e.get("violations"), e["wall_s"]))
    except Exception as ex:
        ok = False
        print("%s INVALID: %s" % (c["property_id"], str(ex)[:200]))
sys.exit(0 if ok else 1)
