#!/bin/bash
# developer helper: stop every running ./check driver and its solvers
P="tool/run"".py"
for pid in $(ps -eo pid,args | grep "$P" | grep -v grep | awk '{print $1}'); do kill $pid 2>/dev/null; done
pkill -x cbmc; pkill -x cargo-kani; pkill -x kani-driver
sleep 1
rm -rf /var/tmp/kmv.*
