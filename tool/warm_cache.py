#!/usr/bin/env python3
"""Builds /verif/.cache/kani-target: the Kani (goto) build of the crates.io
dependencies of the packages the checks verify.  Path crates of the repository
are always rebuilt by ./check from the current working tree; only registry
crates (unchanged by edits to /repo) are reused from this cache."""
import os
import shutil
import subprocess
import sys
import tempfile

HERE = os.path.dirname(os.path.abspath(__file__))
VERIF = os.path.dirname(HERE)
sys.path.insert(0, HERE)
import inject  # noqa: E402
import props  # noqa: E402

REPO = os.environ.get("VERIF_REPO", "/repo")
cache = os.path.join(VERIF, ".cache")
os.makedirs(cache, exist_ok=True)
scratch = tempfile.mkdtemp(prefix="kmv.warm.", dir=os.environ.get("VERIF_SCRATCH", "/var/tmp"))
try:
    ws = os.path.join(scratch, "ws")
    subprocess.check_call(["rsync", "-a", "--exclude", "/target", "--exclude", ".git", REPO + "/", ws + "/"])
    inj = inject.Injector(ws, VERIF, scratch)
    pkgs = []
    for pid, P in sorted(props.PROPS.items()):
        for s in P.shims:
            if s.startswith("bio"):
                try:
                    getattr(inj, "shim_" + s)()
                except Exception as e:  # already applied
                    pass
        for i in P.instances("quick", 0):
            if i.pkg not in pkgs:
                pkgs.append(i.pkg)
    tdir = os.path.join(scratch, "kt")
    env = dict(os.environ)
    env["CARGO_NET_OFFLINE"] = "true"
    ok = True
    for pkg in pkgs:
        rc = subprocess.call(["cargo", "kani", "-p", pkg, "--only-codegen", "--target-dir", tdir], cwd=ws, env=env,
                             stdout=subprocess.DEVNULL, stderr=subprocess.DEVNULL)
        print("warm %s: rc=%d" % (pkg, rc), flush=True)
        ok = ok and rc == 0
    # native cache: release build of the registry crates that the table/header dump helpers link
    try:
        shutil.rmtree(os.path.join(cache, "native-target"), ignore_errors=True)
        inj.native_run("warm", "fn main() { let _ = kmer::numeric_to_kmer(0, 1); let _ = composition::cgr::cgr_maps(1.0); }", ["kmer", "composition"], "warm")
        nt = os.path.join(scratch, "nt")
        if os.path.isdir(nt):
            shutil.move(nt, os.path.join(cache, "native-target"))
            print("warm native: ok", flush=True)
    except Exception as e:
        print("warm native: failed (%s)" % str(e)[:300], flush=True)
    dst = os.path.join(cache, "kani-target")
    shutil.rmtree(dst, ignore_errors=True)
    if os.path.isdir(tdir):
        shutil.rmtree(os.path.join(tdir, "result_output_dir"), ignore_errors=True)
        shutil.move(tdir, dst)
    sys.exit(0 if ok else 1)
finally:
    shutil.rmtree(scratch, ignore_errors=True)
