"""Texts of MANIFEST.json (kept next to the registry; see mk_manifest.py)."""

TECH = "bounded symbolic execution of the real Rust code with Kani/CBMC (SAT, CaDiCaL); counterexamples replayed natively"

NOTE_COMMON = (
    "Trusted: Kani 0.68/CBMC 6.11/CaDiCaL and Kani's models of core/alloc; dev-profile semantics; the oracle in /verif/harness "
    "(written from the property text). Every pass is 'UNSAT within the listed bounds, unwinding assertions on, cover witnesses satisfied'; "
    "nothing is claimed outside the bounds listed in the evidence file. "
)

CHECKS = {
    "C01": {
        "text": "For each concrete k in the bound table and every byte string (bytes 0x04-0xFF, length symbolic 0..=N) the solver shows that "
        "the real KmerGenerator yields exactly the oracle's valid windows, in order, with the base-4 forward code and the reverse-strand code, "
        "and then None. Bit-precise over all 2^(8N) strings per instance; no induction beyond N.",
        "design_ref": "DESIGN.md section 3 / C01",
        "note": NOTE_COMMON + "Bounds: quick k in {1..5,15,16,30,31}+2 rotated, thorough every k in 1..=31; N = k+6 (k<=8) or k+3.",
        "technique": TECH,
    },
    "C02": {
        "text": "For every concrete k in the table and EVERY code x < 4^k (symbolic 64-bit x) the solver shows rev_comp is an involution, stays below 4^k and "
        "equals the code of the reverse-complemented text; numeric_to_kmer decodes to exactly k ACGT letters that re-encode to x (small k only); and for all "
        "byte strings up to k+3 the real iterator's stream on the reverse-complemented string is the reversed stream with strands swapped, second = rev_comp(first), "
        "canonical k-mers equal.",
        "design_ref": "DESIGN.md section 3 / C02",
        "note": NOTE_COMMON + "Bounds: rev_comp every k 1..=31 (thorough) / 13 values (quick), all codes; decode k<=2 (k=3 attempted in thorough); stream k in {1,2,3,4,5,8}(+15,16,31), N=k+3.",
        "technique": TECH,
    },
    "C09": {
        "text": "For each (w,m) in the bound table and each length L, for every byte string of that length the solver shows the real MinimiserGenerator emits exactly "
        "the oracle's maximal runs (minimiser, start, end), left to right, and nothing else (no placeholder). Found two genuine defects on the original tree "
        "(last run dropped; u64::MAX emitted for a tail in [m,w)), both replayed natively and repaired by a fix: commit.",
        "design_ref": "DESIGN.md section 3 / C09",
        "note": NOTE_COMMON + "std VecDeque is replaced under cfg(kani) by a fixed-capacity ring model (capacity overflow is a reported failure); "
        "per-loop unwind bounds for the `for j in 0..buff.len()` loops are discovered from the goto binary, unwinding assertions stay on. "
        "Bounds: (w,m) in {(1,1),(2,1),(2,2),(3,2),(3,3),(4,2),(5,3)}, L = 0..=w+3 (quick); + (4,1),(6,3),(6,5),(8,5),(31,31),(32,31) (thorough).",
        "technique": TECH,
    },
}

NOT_APPLICABLE = {
    "C05": "quantifies over rayon worker interleavings, writer paths and gzip/FASTQ containers: Kani has no concurrency, file-system or float-formatting model; the only schedule-independent ingredient (row offsets tile the file) is decided under C14",
    "C07": "scc::HashMap atomicity, rayon workers, temp-file round trip and directory listing decide this property; none can be executed symbolically by Kani/CBMC (threads/FFI/file I/O unsupported)",
    "C10": "same structure as C07 (rayon + scc + file output + {:?} formatting); the per-record run list it prints is decided under C09",
    "C15": "clap parsing and process exit status are out of reach, and kani-compiler 0.68 crashes (ICE in intrinsics.rs) on anything reachable from kmertools::args::cli",
    "C16": "whole-process property (panic/exit status across I/O paths); the only kernel clause (no placeholder value emitted) is decided under C09",
    "C17": "depends on O_TRUNC/set_len/File::create semantics of the OS; no repository code to execute symbolically",
}

# properties whose checks are not built yet are listed as not applicable *for now* with that reason
NOT_BUILT = "check not built yet in this round (planned, see DESIGN.md section 3)"
for _p in ("C03", "C04", "C06", "C08", "C11", "C12", "C13", "C14", "C18"):
    NOT_APPLICABLE.setdefault(_p, NOT_BUILT)

NOTES = (
    "All checks are `./check <ID> --tier quick|thorough`. Each run snapshots /repo's working tree into a scratch directory, injects the "
    "harness modules from /verif/harness (nothing is written to /repo), runs cargo-kani, replays any counterexample natively and writes "
    "/verif/evidence/<ID>.json. Exit 0 = all core instances UNSAT within bounds; 1 = reproduced violation; 2 = inconclusive."
)
