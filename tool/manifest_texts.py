"""Texts of MANIFEST.json (kept next to the registry; see mk_manifest.py)."""

TECH = "bounded symbolic execution of the real Rust code with Kani/CBMC (SAT, CaDiCaL); counterexamples replayed natively"

NOTE_COMMON = (
    "Trusted: Kani 0.68/CBMC 6.11/CaDiCaL and Kani's models of core/alloc; dev-profile semantics; the oracle in /verif/harness "
    "(written from the property text). Every pass is 'UNSAT within the listed bounds, unwinding assertions on, cover witnesses satisfied'; "
    "nothing is claimed outside the bounds listed in the evidence file. "
)

CHECKS = {
    "C01": {
        "text": "For each concrete k in the bound table and every byte string (bytes 0x04-0xFF, length symbolic 0..=N) the solver shows that "
        "the real KmerGenerator yields exactly the oracle's valid windows, in order, with the base-4 forward code and the reverse-strand code, "
        "and then None. Bit-precise over all 2^(8N) strings per instance. Second encoding: ONE INDUCTIVE STEP - from any state satisfying a functional invariant (proved "
        "inductive, base case included) one next() returns exactly the next valid window with the right codes (and second = rev_comp(first)) - call histories of any length for sequences up to N.",
        "design_ref": "DESIGN.md section 3 / C01",
        "note": NOTE_COMMON + "Bounds: quick k in {1..5,15,16,30,31}+2 rotated, thorough every k in 1..=31; N = k+6 (k<=8) or k+3.",
        "technique": TECH,
    },
    "C02": {
        "text": "For every concrete k in the table and EVERY code x < 4^k (symbolic 64-bit x) the solver shows rev_comp is an involution, stays below 4^k and "
        "equals the code of the reverse-complemented text; numeric_to_kmer decodes to exactly k ACGT letters that re-encode to x (small k only); and for all "
        "byte strings up to k+3 the real iterator's stream on the reverse-complemented string is the reversed stream with strands swapped, second = rev_comp(first), "
        "canonical k-mers equal.",
        "design_ref": "DESIGN.md section 3 / C02",
        "note": NOTE_COMMON + "Bounds: rev_comp every k 1..=31 (thorough) / 13 values (quick), all codes; decode k<=2 (k=3 attempted in thorough); stream k in {1,2,3,4,5,8}(+15,16,31), N=k+3.",
        "technique": TECH,
    },
    "C03": {
        "text": "The rank/inverse tables are produced by running the real kmer_pos_maps(k) natively on the snapshot (input-free function); for symbolic codes x, y < 4^k and "
        "symbolic column p the solver shows against the real rev_comp: rank of the canonical form is a column, strictly increasing with the canonical code, the "
        "inverse map is its exact inverse, every column has a canonical k-mer whose rank is the column, and the count is (4^k+4^(k/2))/2 / 4^k/2. For k = 1 the real "
        "function is also executed inside the solver and must reproduce the native table (validates the container models). The private get_header of the CLI "
        "crate and of the Python binding is executed for k <= 3 and every column's name compared with a compiler-evaluated oracle list, with the map model iterating "
        "in insertion and in reversed order; for k = 4..=7 both headers are dumped by a native run of the real new()+get_header() and the same obligation is decided "
        "for a symbolic column.",
        "design_ref": "DESIGN.md section 3 / C03",
        "note": NOTE_COMMON + "HashMap/HashSet are fixed-capacity association-list models under cfg(kani); `bio` is patched by a stand-in (not executed). "
        "Bounds: tables k 1..=6 (quick) / 1..=8 (thorough); header k 1..=5 (quick) / 1..=7 (thorough).",
        "technique": TECH,
    },
    "C04": {
        "text": "The computer is built by the real public constructor OligoComputer::new + set_norm (k <= 3; rayon::current_num_threads and kmer_pos_maps stubbed - the "
        "latter by the native tables that C03 decides) and the private vectorise_one is executed on every byte string up to N (symbolic length); for a symbolic column the solver shows v[col] == count (raw) or the correctly rounded IEEE quotient count/max(1,total) (normalised) against "
        "an oracle that counts windows through a compiler-evaluated code->column table; all-zero row without window; row bit-identical under reverse complement, "
        "case toggle and U-for-T.",
        "design_ref": "DESIGN.md section 3 / C04",
        "note": NOTE_COMMON + "Bounds: k 1..=3 with N <= 5 (quick) / <= 6, k 4..=7 with N = k+1 (thorough, optional). The textual row (float formatting), batching, "
        "threads and the CLI are outside.",
        "technique": TECH,
    },
    "C06": {
        "text": "NARROW claim: ktio's own code only. For R records (concrete lengths incl. an empty FASTA record, symbolic ids/bases/format) handed out by a stand-in for "
        "the bio reader the solver shows Sequences::next returns each record once, in order, numbered 0,1,2,.., id and bases copied unchanged, then None, and "
        "seq_stats = (R, sum of lengths). FASTA/FASTQ parsing, gzip (incl. multi-member) and suffix inference are NOT covered.",
        "design_ref": "DESIGN.md section 3 / C06",
        "note": NOTE_COMMON + "The `bio` crate does not compile under kani-compiler; a stand-in with a harness-controlled record list replaces it in Kani builds. "
        "Counterexamples are replayed natively by serialising the records as FASTA/FASTQ text for the real bio parser.",
        "technique": TECH,
    },
    "C08": {
        "text": "KERNEL claim: the real constructor CovComputer::new + set_norm (rayon stub) and the private CovComputer::vectorise_one for ANY counts table (<= 3 symbolic entries with symbolic u32 multiplicities), symbolic record, "
        "symbolic bin size, concrete bin count: for a symbolic bin the solver shows the entry equals the number (or correctly rounded fraction) of windows whose "
        "multiplicity c satisfies min(floor(c/bin-size), bins-1) = bin - including that the code's f64 floor-division equals the integer quotient.",
        "design_ref": "DESIGN.md section 3 / C08",
        "note": NOTE_COMMON + "Integer quotient in the oracle = fresh variable constrained by the division lemma. Bounds: k in {2,3}, N <= 5, bin size <= 2^8 in core "
        "instances (2^16, 2^32 optional). build_table, row order, batching/flush, threads and formatting are outside.",
        "technique": TECH,
    },
    "C09": {
        "text": "For each (w,m) in the bound table and each length L, for every byte string of that length the solver shows the real MinimiserGenerator emits exactly "
        "the oracle's maximal runs (minimiser, start, end), left to right, and nothing else (no placeholder). Found two genuine defects on the original tree "
        "(last run dropped; u64::MAX emitted for a tail in [m,w)), both replayed natively and repaired by a fix: commit. Second encoding: ONE INDUCTIVE STEP - from any "
        "state satisfying a functional invariant (what every field means in terms of the sequence and position; proved inductive, base case included) one next() returns "
        "exactly the oracle's next maximal run - which covers call histories of any length for sequences up to N.",
        "design_ref": "DESIGN.md section 3 / C09",
        "note": NOTE_COMMON + "std VecDeque is replaced under cfg(kani) by a fixed-capacity ring model (capacity overflow is a reported failure); "
        "per-loop unwind bounds for the `for j in 0..buff.len()` loops are discovered from the goto binary, unwinding assertions stay on. "
        "Bounds: (w,m) in {(1,1),(2,1),(2,2),(3,2),(3,3),(4,2),(5,3)}, every L = 0..=w+2 (w+1 for w >= 4), step (w,m,N) up to (3,3,6) (quick); L <= w+3, + (4,1),(6,3),(6,5),(8,5),(31,31),(32,31), step up to (31,31,33) (thorough).",
        "technique": TECH,
    },
    "C11": {
        "text": "The real constructor CgrComputer::new (rayon stub), cgr_maps and the private CgrComputer::vectorise_one are executed for symbolic square size 1..=2^20 and every byte string (all 256 values) of each "
        "length: Ok iff all bytes are ACGTU letters; each point is bit-exactly the midpoint of the previous point and the base's corner (corner table from the "
        "property), with an exactness witness, inside the square and inside the sub-squares of its last one and two bases; prefix determinism by a second run on the prefix.",
        "design_ref": "DESIGN.md section 3 / C11",
        "note": NOTE_COMMON + "Bounds: lengths 0..=3 (quick) / 0..=6 (thorough). The batch/file path and float formatting are outside.",
        "technique": TECH,
    },
    "C12": {
        "text": "The real constructor OligoCgrComputer::new + set_norm (rayon and kmer_pos_maps stubbed as in C04) and the private vectorise_one/seq_to_kmer/cgr_maps are executed: for a symbolic "
        "column, (x,y) is bit-exactly the chaos-game end point of the column's k-mer text (oracle list evaluated by the compiler) for symbolic square size, f equals "
        "the oracle's count or correctly rounded count/total, and (x,y) is equal across two different records.",
        "design_ref": "DESIGN.md section 3 / C12",
        "note": NOTE_COMMON + "Bounds: k = 1, lengths 0, 1, 3 (quick); k <= 3 lengths 0..=k+3 (thorough, k >= 2 optional: about 10 min and 8-10 GB per instance). Row order/threads/batching outside.",
        "technique": TECH,
    },
    "C13": {
        "text": "The Rust bodies of the #[pymethods] are executed and compared with the core: oligo vector bit-equal to composition's vectorise_one for strings of symbolic "
        "ASCII and two-byte UTF-8 characters; CGR accepts/rejects exactly like the core (non-ASCII must be rejected) with bit-equal points; header equal; the k-mer and "
        "minimiser iterators yield the core iterators' items after the String is consumed and the object moved twice (Arc-backed lifetime extension checked by "
        "Kani's pointer checks).",
        "design_ref": "DESIGN.md section 3 / C13",
        "note": NOTE_COMMON + "pyo3's PyValueError::new_err is stubbed (kani-compiler crashes on it); only is_err() is inspected. Everything that needs a live "
        "interpreter, vectorise_batch (rayon) and module registration are outside.",
        "technique": TECH,
    },
    "C14": {
        "text": "(a) safety-only runs of the private accumulators of oligo / oligocgr / coverage with the native tables: Kani's pointer checks decide every "
        "get_unchecked(_mut) for all records in the bounds; every pos_map entry < kcount for k <= 7(8); (b) MMWriter::write_at writes exactly the given bytes and "
        "nothing else iff pos+len <= capacity (and is shown NOT to bounds-check the tail); (c) the file-layout arithmetic of vectorise_mmap, extracted as a program slice "
        "from the current source text and compiled verbatim, tiles the file exactly for symbolic record counts/numbers, delimiter lengths 0..7, header on/off; (d) the "
        "counter's partition index (extracted expressions incl. init()'s n_parts) is below the table length for every k-mer, thread count >= 1, data size and memory "
        "ceiling. Found the genuine delimiter-length defect (fixed by a fix: commit).",
        "design_ref": "DESIGN.md section 3 / C14",
        "note": NOTE_COMMON + "(c) rests on a row-length model (each value is NUMBER_SIZE characters) guarded syntactically: if the value formatting or row assembly "
        "in vectorise_mmap changes shape the check is inconclusive. Counterexamples of (c) are replayed end-to-end through the public OligoComputer API on real "
        "files. The partition index in counter::count_chunk and thread schedules are outside.",
        "technique": TECH,
    },
    "C16": {
        "text": "KERNEL claim for the two minimiser subcommands only: the expressions with which bin_sequences and seq_to_min build the per-record generator "
        "(`if wsize == 0 {..} else {..}`) are extracted from the current misc/src/minimisers.rs and executed with the real MinimiserGenerator on every record of "
        "each length 0..=m+2 (incl. no bases, shorter than m, shorter than w): no panic/overflow/unwrap failure (Kani's default checks), the iterator ends, no "
        "placeholder value, runs inside the record. Found a genuine defect (w = 0 with a record shorter than m panics), fixed by a fix: commit.",
        "design_ref": "DESIGN.md section 3 / C16",
        "note": NOTE_COMMON + "Everything else of C16 (empty input file, exit status, I/O paths of the other subcommands) is outside; their per-record kernels are "
        "exercised on empty/short/all-ambiguous records by C04, C08, C11, C12, C14 with panic checks on. VecDeque ring model; call sites located by a regular "
        "expression (not found -> inconclusive).",
        "technique": TECH,
    },
    "C18": {
        "text": "Two complementary encodings of the real KmerMinimiserGenerator. Whole-run: for each (w,m) and length the solver shows item-by-item equality with the "
        "plain MinimiserGenerator and that the concatenated k-mer lists are exactly the canonical w-mers of the valid windows in order (also against the real "
        "KmerGenerator). Inductive step for clause (1): from ANY pair of states agreeing on the shared fields and satisfying a validity invariant (proved inductive, "
        "base case included) one next() of each yields the same run and agreeing states; inductive step for clause (2): the k-mer list attached by one call is exactly "
        "the canonical w-mers of the valid windows ending at the positions that call consumed (calls tile the sequence) - both covering call histories of any length for "
        "sequences up to N.",
        "design_ref": "DESIGN.md section 3 / C18",
        "note": NOTE_COMMON + "VecDeque ring model and a fixed-capacity Vec model for the per-run k-mer list (one added import line in kmer_minimisers.rs) under "
        "cfg(kani). Bounds: whole-run (w,m) in {(2,1),(2,2),(3,2),(3,3)} L <= w+1 (quick) / w+2, more pairs optional (thorough); step (w,m,N) up to (4,2,7) quick, "
        "up to (31,31,33) thorough.",
        "technique": TECH,
    },
}

NOT_APPLICABLE = {
    "C05": "quantifies over rayon worker interleavings, writer paths and gzip/FASTQ containers: Kani has no concurrency, file-system or float-formatting model; the only schedule-independent ingredient (row offsets tile the file) is decided under C14",
    "C07": "scc::HashMap atomicity, rayon workers, temp-file round trip and directory listing decide this property; none can be executed symbolically by Kani/CBMC (threads/FFI/file I/O unsupported)",
    "C10": "same structure as C07 (rayon + scc + file output + {:?} formatting); the per-record run list it prints is decided under C09",
    "C15": "clap parsing and process exit status are out of reach, and kani-compiler 0.68 crashes (ICE in intrinsics.rs) on anything reachable from kmertools::args::cli",
    "C17": "depends on O_TRUNC/set_len/File::create semantics of the OS; no repository code to execute symbolically",
}

# properties whose checks are not built yet are listed as not applicable *for now* with that reason
NOT_BUILT = "check not built yet in this round (planned, see DESIGN.md section 3)"
for _p in ():
    NOT_APPLICABLE.setdefault(_p, NOT_BUILT)

NOTES = (
    "All checks are `./check <ID> --tier quick|thorough`. Each run snapshots /repo's working tree into a scratch directory, injects the "
    "harness modules from /verif/harness (nothing is written to /repo), runs cargo-kani, replays any counterexample natively and writes "
    "/verif/evidence/<ID>.json. Exit 0 = all core instances UNSAT within bounds; 1 = reproduced violation; 2 = inconclusive."
)
