"""Registry of claimed properties: which real functions each one encodes,
which harness modules are injected where, and the bound tables per tier."""
import random


class Inst:
    def __init__(self, name, module, pkg, body, unwind, desc, core=True, timeout=600, cost=1.0, attrs=(), features=(), require_opt=(), unwindset=()):
        self.name = name
        self.module = module  # harness module (file) the instance lives in
        self.pkg = pkg  # cargo package passed to `cargo kani -p`
        self.body = body
        self.unwind = unwind
        self.desc = desc
        self.core = core
        self.timeout = timeout
        self.cost = cost
        self.attrs = list(attrs)
        self.features = list(features)
        self.require_opt = set(require_opt)
        self.unwindset = list(unwindset)
        self.modpath = None

    def full_name(self):
        return "%s::%s" % (self.modpath or self.module, self.name)


class Module:
    def __init__(self, crate, name, src, parent=""):
        self.crate = crate
        self.name = name
        self.src = src
        self.parent = parent  # "" = child of the crate root, "oligo" = child of src/oligo.rs


class Prop:
    def __init__(self, pid, modules, functions, assumptions, outside, instances, shims=(), generate=None, roles=None):
        self.pid = pid
        self.modules = modules
        self.functions = functions
        self.assumptions = assumptions
        self.outside = outside
        self._instances = instances
        self.shims = list(shims)
        self.generate = generate
        self.roles = roles or []

    def instances(self, tier, seed):
        insts = self._instances(tier, seed)
        mods = {m.name: m for m in self.modules}
        for i in insts:
            m = mods[i.module]
            i.modpath = ("%s::%s" % (m.parent, m.name)) if m.parent else m.name
        return insts

    def role_of(self, desc):
        """Role of a failed check = what known_findings.txt is keyed by."""
        for pat, role in self.roles:
            if pat in desc:
                return role
        d = desc.lower()
        for pat, role in (
            ("overflow", "arithmetic-overflow-in-real-code"),
            ("index out of bounds", "index-out-of-bounds-in-real-code"),
            ("dereference failure", "invalid-pointer-dereference"),
            ("unwrap()", "unwrap-on-none"),
        ):
            if pat in d:
                return role
        return "other:" + "".join(c if c.isalnum() else "-" for c in desc)[:60]


COMMON_ASSUME = [
    "Kani 0.68 / CBMC 6.11 / CaDiCaL and Kani's models of core/alloc are sound",
    "dev-profile semantics (overflow checks on) as compiled by Kani's pinned toolchain; release-profile behaviour is exercised only by native replays",
    "sequence bytes are assumed > 0x03 where the property leaves 0x00-0x03 unspecified",
]

PROPS = {}


def rot(seed, pool, n):
    """seed-rotated choice of n extra elements of pool (never changes a verdict, only which extra instances run)."""
    if not pool or n <= 0:
        return []
    r = random.Random(seed)
    p = list(pool)
    r.shuffle(p)
    return p[:n]


# ---------------------------------------------------------------------------
# C01
def c01_instances(tier, seed):
    out = []
    if tier == "quick":
        ks = [1, 2, 3, 4, 5, 15, 16, 30, 31]
        ks += rot(seed, [k for k in range(6, 30) if k not in (15, 16)], 2)
    else:
        ks = list(range(1, 32))
    for k in sorted(set(ks)):
        n = k + 6 if k <= 8 else k + 3
        out.append(
            Inst(
                "c01_k%d_n%d" % (k, n), "verif_c01", "kmer", "c01_body::<%d, %d>()" % (k, n), n + 2,
                {"k": k, "max_len": n, "len": "symbolic 0..=%d" % n, "bytes": "symbolic 0x04..=0xFF"},
                core=True, timeout=900, cost=float(n),
                require_opt=(["opt: k-mers resumed after an ambiguous byte"] if n >= 2 * k + 1 else []),
            )
        )
    return out


PROPS["C01"] = Prop(
    "C01",
    modules=[Module("kmer", "verif_c01", "harness/kmer/verif_c01.rs")],
    functions=["kmer::kmer::KmerGenerator::new", "<kmer::kmer::KmerGenerator as Iterator>::next", "kmer::kmer::SEQ_NT4_TABLE"],
    assumptions=COMMON_ASSUME,
    outside=["sequences longer than max_len of the instance (no induction claimed)", "the Python wrapper (delegation only; see C13)"],
    instances=c01_instances,
    roles=[
        ("a valid window is not yielded", "valid-window-missing"),
        ("forward code differs", "wrong-forward-code"),
        ("reverse-strand code differs", "wrong-reverse-code"),
        ("not below 4^k", "code-out-of-range"),
        ("not a valid window", "spurious-item"),
        ("yields again after", "not-fused"),
    ],
)


# ---------------------------------------------------------------------------
# C09
def c09_inst(w, m, n, length=None, core=True, timeout=900):
    r = n - w + 3 if n >= w else 3
    unw = n + 2
    if length is None:
        name = "c09_w%d_m%d_n%d_sym" % (w, m, n)
        body = "c09_symlen::<%d, %d, %d, %d>()" % (w, m, n, r)
        ld = "symbolic 0..=%d" % n
        nn = n
    else:
        name = "c09_w%d_m%d_l%d" % (w, m, length)
        r = length - w + 3 if length >= w else 3
        body = "c09_fixed::<%d, %d, %d, %d>()" % (w, m, length, r)
        ld = str(length)
        nn = length
        unw = length + 2
    unw = max(unw, w + 2, r + 1)
    return Inst(name, "verif_c09", "kmer", body, unw, {"w": w, "m": m, "len": ld, "bytes": "symbolic 0x04..=0xFF"},
                core=core, timeout=timeout, cost=float(nn * (w - m + 2)),
                unwindset=[("kmer/src/minimiser.rs", r"for\s+\w+\s+in\s+0\.\.self\.buff\.len\(\)", w - m + 3)])


def c09_instances(tier, seed):
    out = []
    quick = [(1, 1), (2, 1), (2, 2), (3, 2), (3, 3), (4, 2), (5, 3)]
    for (w, m) in quick:
        for length in range(0, w + 4):
            out.append(c09_inst(w, m, w + 3, length))
    if tier == "thorough":
        for (w, m) in [(4, 1), (6, 3), (6, 5), (8, 5)]:
            for length in range(0, w + 3):
                out.append(c09_inst(w, m, w + 2, length, core=False, timeout=3600))
        for (w, m) in [(31, 31), (32, 31)]:
            for length in (m - 1, w - 1, w, w + 1):
                out.append(c09_inst(w, m, w + 1, length, core=False, timeout=3600))
    return out


PROPS["C09"] = Prop(
    "C09",
    modules=[Module("kmer", "verif_c09", "harness/kmer/verif_c09.rs")],
    functions=["kmer::minimiser::MinimiserGenerator::new", "<kmer::minimiser::MinimiserGenerator as Iterator>::next", "kmer::minimiser::SEQ_NT4_TABLE"],
    assumptions=COMMON_ASSUME + [
        "std::collections::VecDeque is replaced under cfg(kani) by a fixed-capacity queue model (shim/containers.rs); exceeding its capacity is a reported failure; native replays use the std VecDeque",
    ],
    outside=["sequences longer than the instance length", "(w,m) pairs not in the bound table", "pybindings wrapper (see C13)"],
    instances=c09_instances,
    shims=["vecdeque"],
    roles=[
        ("not reported (iterator ended early)", "run-missing"),
        ("not the minimiser of the run", "wrong-minimiser"),
        ("reported start", "wrong-start"),
        ("reported end", "wrong-end"),
        ("corresponds to no run", "spurious-item"),
    ],
)


# ---------------------------------------------------------------------------
# C18
BUFF_LOOP = r"for\s+\w+\s+in\s+0\.\.self\.buff\.len\(\)"


def c18_inst(w, m, length, core=True, timeout=1200):
    r = length - w + 3 if length >= w else 3
    unw = max(length + 2, w + 2, r + 1)
    return Inst(
        "c18_w%d_m%d_l%d" % (w, m, length), "verif_c18", "kmer", "c18_fixed::<%d, %d, %d, %d>()" % (w, m, length, r), unw,
        {"w": w, "m": m, "len": str(length), "bytes": "symbolic 0x04..=0xFF"}, core=core, timeout=timeout,
        cost=float(length * (w - m + 2)),
        unwindset=[("kmer/src/minimiser.rs", BUFF_LOOP, w - m + 3), ("kmer/src/kmer_minimisers.rs", BUFF_LOOP, w - m + 3)],
    )


def c18_instances(tier, seed):
    out = []
    for (w, m) in [(2, 1), (3, 2), (3, 3), (4, 2)]:
        for length in range(0, w + 4):
            out.append(c18_inst(w, m, length))
    if tier == "thorough":
        for length in range(0, 5 + 4):
            out.append(c18_inst(5, 3, length, core=False, timeout=3600))
        for length in (30, 31, 32):
            out.append(c18_inst(31, 31, length, core=False, timeout=3600))
    return out


PROPS["C18"] = Prop(
    "C18",
    modules=[Module("kmer", "verif_c18", "harness/kmer/verif_c18.rs")],
    functions=[
        "kmer::kmer_minimisers::KmerMinimiserGenerator::new", "<kmer::kmer_minimisers::KmerMinimiserGenerator as Iterator>::next",
        "kmer::minimiser::MinimiserGenerator::{new,next}", "kmer::kmer::KmerGenerator::{new,next}",
    ],
    assumptions=COMMON_ASSUME + [
        "std::collections::VecDeque is replaced under cfg(kani) by a fixed-capacity ring model (shim/containers.rs); native replays use the std VecDeque",
        "the Vec<Kmer> attached to each run is the real alloc::vec::Vec",
    ],
    outside=["sequences longer than the instance length", "(w,m) pairs not in the bound table"],
    instances=c18_instances,
    shims=["vecdeque"],
    roles=[
        ("minimiser of a run differs", "run-minimiser-differs"),
        ("start of a run differs", "run-start-differs"),
        ("end of a run differs", "run-end-differs"),
        ("ends before the plain", "run-missing-vs-plain"),
        ("does not have", "run-extra-vs-plain"),
        ("w-mer is lost", "wmer-lost"),
        ("not the canonical w-mers", "wmer-wrong"),
        ("more k-mers attached", "wmer-extra"),
        ("no w-mer of a valid window", "wmer-extra"),
    ],
)


# ---------------------------------------------------------------------------
# C02
def c02_instances(tier, seed):
    out = []
    ks = list(range(1, 32)) if tier == "thorough" else sorted(set([1, 2, 3, 4, 7, 8, 15, 16, 30, 31] + rot(seed, range(5, 30), 3)))
    for k in ks:
        out.append(Inst("c02_revcomp_k%d" % k, "verif_c02", "kmer", "c02_revcomp::<%d>()" % k, k + 2,
                        {"clause": "(a)+(b) rev_comp involution and text-level agreement", "k": k, "x": "symbolic, all codes < 4^k"},
                        core=True, timeout=600, cost=float(k)))
    dks = [1, 2] if tier == "quick" else [1, 2, 3]
    for k in dks:
        out.append(Inst("c02_decode_k%d" % k, "verif_c02", "kmer", "c02_decode::<%d>()" % k, k + 3,
                        {"clause": "(c) numeric_to_kmer decode/re-encode", "k": k, "x": "symbolic, all codes < 4^k"},
                        core=(k <= 2), timeout=900 if k <= 2 else 3000, cost=100.0 * k))
    sks = [1, 2, 3, 4, 5, 8] if tier == "quick" else [1, 2, 3, 4, 5, 8, 15, 16, 31]
    for k in sks:
        n = k + 3
        out.append(Inst("c02_stream_k%d_n%d" % (k, n), "verif_c02", "kmer", "c02_stream::<%d, %d, %d>()" % (k, n, n - k + 2), n + 2,
                        {"clause": "(d) strand symmetry of the k-mer stream", "k": k, "max_len": n, "len": "symbolic 0..=%d" % n},
                        core=(k <= 8), timeout=1200, cost=3.0 * n))
    return out


PROPS["C02"] = Prop(
    "C02",
    modules=[Module("kmer", "verif_c02", "harness/kmer/verif_c02.rs")],
    functions=["kmer::kmer::KmerGenerator::rev_comp", "kmer::numeric_to_kmer", "kmer::kmer::KmerGenerator::{new,next}"],
    assumptions=COMMON_ASSUME,
    outside=[
        "text decoding (numeric_to_kmer) of a SYMBOLIC code for k > 2 (k = 3 is attempted in the thorough tier and exceeded 12 GB when probed): String::push / chars().rev().collect() fork on every symbolic letter; larger k is decided only where the code is concrete (headers, C03)",
        "stream symmetry for sequences longer than k+3",
    ],
    instances=c02_instances,
    roles=[
        ("not a k-mer code", "revcomp-out-of-range"),
        ("differs from the code of the reverse-complemented text", "revcomp-wrong"),
        ("twice does not return", "revcomp-not-involution"),
        ("exactly k letters", "decode-length"),
        ("outside ACGT", "decode-alphabet"),
        ("does not give the code back", "decode-roundtrip"),
        ("different numbers of k-mers", "stream-count"),
        ("second component", "second-not-revcomp"),
        ("reversed stream", "stream-not-mirrored"),
        ("canonical k-mers differ", "canonical-differs"),
        ("more k-mers than windows", "stream-count"),
    ],
)


# ---------------------------------------------------------------------------
# C03
import importlib.util as _ilu
import os as _os

_spec = _ilu.spec_from_file_location("tables", _os.path.join(_os.path.dirname(_os.path.dirname(_os.path.abspath(__file__))), "harness/common/tables.py"))
tables = _ilu.module_from_spec(_spec)
_spec.loader.exec_module(tables)


def table_ks(insts):
    ks = set()
    for i in insts:
        for k in i.desc.get("tables", []):
            ks.add(k)
    return sorted(ks)


def gen_tables(inj, insts):
    ks = table_ks(insts)
    if not ks:
        return {"TABLES": ""}
    tabs = tables.dump_tables(inj, ks)
    inj.extra_evidence["tables_by_native_run_of_real_kmer_pos_maps"] = {str(k): {"count": tabs[k][0], "rank_entries": len(tabs[k][1])} for k in tabs}
    return {"TABLES": tables.rust_tables(tabs)}


def c03_instances(tier, seed):
    out = []
    for k in ((1,) if tier == "quick" else (1, 2)):
        out.append(Inst("c03_insolver_k%d" % k, "verif_c03", "kmer", "c03_insolver::<%d>(&RANK_K%d, &INV_K%d, COUNT_K%d)" % (k, k, k, k), 4 ** k + 2,
                        {"clause": "encoding validation: real kmer_pos_maps executed by the solver equals the native table", "k": k, "tables": [k]},
                        core=(k == 1), timeout=1500, cost=300.0 * k))
    tks = [1, 2, 3, 4, 5, 6] if tier == "quick" else [1, 2, 3, 4, 5, 6, 7, 8]
    for k in tks:
        out.append(Inst("c03_table_k%d" % k, "verif_c03", "kmer",
                        "c03_table::<%d>(&RANK_K%d, &INV_K%d, COUNT_K%d, INVLEN_K%d)" % (k, k, k, k, k), k + 3,
                        {"clause": "bijection; table by native run of the real kmer_pos_maps, quantified obligations by the solver", "k": k,
                         "x,y": "symbolic, all codes < 4^k", "p": "symbolic column", "tables": [k]},
                        core=(k <= 6), timeout=1500, cost=10.0 * k))
    hks = [1, 2, 3] if tier == "quick" else [1, 2, 3, 4]
    for k in hks:
        for rev in (False, True):
            sfx = "_rev" if rev else ""
            out.append(Inst("c03_header_k%d%s" % (k, sfx), "verif_c03h", "composition", "c03_header::<%d>()" % k, 4 ** k + 2,
                            {"clause": "CLI header names the canonical k-mers in column order", "k": k, "p": "symbolic column",
                             "map_model_iteration": "reversed" if rev else "insertion order"},
                            core=(k <= 3), timeout=1800, cost=40.0 * 4 ** k, features=(["kmer/verif_rev_iter"] if rev else [])))
        out.append(Inst("c03_pyheader_k%d" % k, "verif_c03p", "pybindings", "c03_pyheader::<%d>()" % k, 4 ** k + 2,
                        {"clause": "Python binding header names the canonical k-mers in column order", "k": k, "p": "symbolic column"},
                        core=(k <= 3), timeout=1800, cost=40.0 * 4 ** k))
    return out


HASHMAP_NOTE = ("std HashMap/HashSet are replaced under cfg(kani) by association-list models (shim/containers.rs; RandomState needs a getrandom syscall Kani "
                "cannot model); iteration order of the model = insertion order (and reversed where stated); native replays use the std containers")
BIO_NOTE = "the `bio` crate is patched by a stand-in in Kani builds (it does not compile under kani-compiler); none of its code is executed by this check"

PROPS["C03"] = Prop(
    "C03",
    modules=[
        Module("kmer", "verif_c03", "harness/kmer/verif_c03.rs"),
        Module("composition", "verif_c03h", "harness/composition/verif_c03h.rs", parent="oligo"),
        Module("pybindings", "verif_c03p", "harness/pybindings/verif_c03p.rs", parent="oligo"),
    ],
    functions=[
        "kmer::kmer::KmerGenerator::kmer_pos_maps", "kmer::kmer::KmerGenerator::rev_comp", "composition::oligo::OligoComputer::get_header (private)",
        "pybindings::oligo::OligoComputer::{new,get_header}", "kmer::numeric_to_kmer",
    ],
    assumptions=COMMON_ASSUME + [HASHMAP_NOTE, BIO_NOTE,
                                 "for k >= 4 the rank/inverse tables are produced by running the real kmer_pos_maps(k) natively on the snapshot (input-free function) and embedded as constants; the quantified obligations over them are decided by the solver"],
    outside=["k = 9, 10 (tables of 2^18 / 2^20 entries)", "header for k > 3 (quick) / k > 4 (thorough)",
             "the join of the header vector with the delimiter presets (sits behind file I/O)", "OligoCgrComputer::new (calls rayon::current_num_threads)"],
    instances=c03_instances,
    shims=["hashmap", "bio"],
    generate=gen_tables,
    roles=[
        ("4^k entries", "rank-table-size"),
        ("column count", "column-count"),
        ("one entry per column", "inverse-size"),
        ("canonical form differs", "canonical-form"),
        ("not a column index", "rank-out-of-range"),
        ("strictly increasing", "rank-order"),
        ("function of the canonical code", "rank-order"),
        ("not the inverse", "inverse-wrong"),
        ("no k-mer (not surjective)", "not-surjective"),
        ("not a k-mer code", "inverse-wrong"),
        ("column k-mer is not canonical", "column-not-canonical"),
        ("is not the column", "not-surjective"),
        ("one name per canonical", "header-length"),
        ("does not have k letters", "header-name"),
        ("outside ACGT", "header-name"),
        ("column order", "header-order"),
    ],
)


# ---------------------------------------------------------------------------
# C04
def kcount_of(k):
    return (4 ** k + 4 ** (k // 2)) // 2 if k % 2 == 0 else 4 ** k // 2


def c04_instances(tier, seed):
    out = []

    def counts(k, n, norm, core=True, timeout=1500):
        out.append(Inst("c04_%s_k%d_n%d" % ("norm" if norm else "raw", k, n), "verif_c04", "composition",
                        "c04_counts::<%d, %d, %s>(&RANK_K%d, COUNT_K%d)" % (k, n, "true" if norm else "false", k, k), max(n + 2, 4 ** k + 2) if k <= 3 else n + 2,
                        {"clause": "row = per-column window counts (%s)" % ("normalised" if norm else "raw"), "k": k, "max_len": n, "len": "symbolic 0..=%d" % n,
                         "column": "symbolic", "tables": [k]}, core=core, timeout=timeout, cost=20.0 * n * (2 if norm else 1)))

    def inv(k, n, mode, core=True, timeout=1500):
        nm = ["revcomp", "case", "tu"][mode]
        out.append(Inst("c04_inv_%s_k%d_n%d" % (nm, k, n), "verif_c04", "composition",
                        "c04_invariance::<%d, %d, %d>(&RANK_K%d, COUNT_K%d)" % (k, n, mode, k, k), n + 2,
                        {"clause": "row invariant under " + ["reverse complement", "letter case toggle", "U for T"][mode], "k": k, "max_len": n,
                         "len": "symbolic 0..=%d" % n, "norm": "symbolic", "column": "symbolic", "tables": [k]}, core=core, timeout=timeout, cost=30.0 * n))

    if tier == "quick":
        for k, n in ((1, 4), (2, 5), (3, 5)):
            counts(k, n, False)
            counts(k, n, True)
        for mode in (0, 1, 2):
            inv(2, 5, mode)
        inv(3, 5, 0)
    else:
        for k in (1, 2, 3):
            for n in range(k + 3, 7):
                counts(k, n, False, core=(n <= 5))
                counts(k, n, True, core=(n <= 5))
            for mode in (0, 1, 2):
                inv(k, 6, mode, core=False)
                inv(k, 5, mode)
        for k in (4, 5, 6, 7):
            counts(k, k + 1, False, core=False, timeout=3000)
            counts(k, k + 1, True, core=False, timeout=3000)
            inv(k, k + 1, 0, core=False, timeout=3000)
    return out


PROPS["C04"] = Prop(
    "C04",
    modules=[Module("composition", "verif_c04", "harness/composition/verif_c04.rs", parent="oligo")],
    functions=["composition::oligo::OligoComputer::vectorise_one (private)", "kmer::kmer::KmerGenerator::{new,next}", "f64 normalisation (IEEE division)"],
    assumptions=COMMON_ASSUME + [HASHMAP_NOTE, BIO_NOTE,
                                 "pos_map is the rank table produced by a native run of the real kmer_pos_maps(k) on the snapshot (C03 decides that table)",
                                 "the struct is built directly (OligoComputer::new calls rayon::current_num_threads, an FFI Kani cannot model)",
                                 "'correct to 6 decimals' is discharged as bit-equality with the correctly rounded IEEE quotient count/total"],
    outside=["the textual row (format!(\"{:.6}\") - float formatting is not executed)", "file/CLI plumbing, batching, threads", "records longer than max_len",
             "k = 8", "the Python copy of this loop (C13)"],
    instances=c04_instances,
    shims=["hashmap", "bio"],
    generate=gen_tables,
    roles=[
        ("one value per canonical", "row-length"),
        ("column count is not", "row-length"),
        ("normalised value", "normalised-value-wrong"),
        ("not all-zero", "empty-record-row"),
        ("raw value", "raw-count-wrong"),
        ("differ in length", "row-length"),
        ("row changes under", "not-invariant"),
    ],
)


# ---------------------------------------------------------------------------
# C11
def c11_instances(tier, seed):
    out = []
    ns = [2, 3] if tier == "quick" else [2, 3, 4, 5, 6]
    for n in ns:
        out.append(Inst("c11_n%d" % n, "verif_c11", "composition", "c11_body::<%d>()" % n, n + 2,
                        {"clause": "midpoint rule, containment, rejection", "max_len": n, "len": "symbolic 0..=%d" % n, "bytes": "symbolic 0x00..=0xFF",
                         "square": "symbolic 1..=2^20"}, core=(n <= 4), timeout=1500 if n <= 3 else 3600, cost=30.0 * n * n,
                        require_opt=[]))
    pn = [3] if tier == "quick" else [3, 4, 5]
    for n in pn:
        out.append(Inst("c11_prefix_n%d" % n, "verif_c11", "composition", "c11_prefix::<%d>()" % n, n + 2,
                        {"clause": "prefix determinism", "len": n, "bytes": "symbolic 0x00..=0xFF", "square": "symbolic 1..=2^20"},
                        core=(n <= 3), timeout=1500 if n <= 3 else 3600, cost=40.0 * n * n))
    return out


PROPS["C11"] = Prop(
    "C11",
    modules=[Module("composition", "verif_c11", "harness/composition/verif_c11.rs", parent="cgr")],
    functions=["composition::cgr::cgr_maps", "composition::cgr::CgrComputer::vectorise_one (private)"],
    assumptions=[COMMON_ASSUME[0], COMMON_ASSUME[1], HASHMAP_NOTE, BIO_NOTE,
                 "the struct is built directly from the real cgr_maps (CgrComputer::new calls rayon::current_num_threads)",
                 "square sizes are integers 1..=2^20 converted to f64 (as the CLI does)"],
    outside=["records longer than max_len (in particular lengths where the midpoints stop being exactly representable)",
             "the batch/file path of CgrComputer::vectorise (I/O, rayon, {} float formatting)", "the Python copy (C13)"],
    instances=c11_instances,
    shims=["hashmap", "bio"],
    roles=[
        ("non-nucleotide byte", "bad-byte-accepted"),
        ("one point per base", "point-count"),
        ("not the midpoint", "not-midpoint"),
        ("not exactly representable", "oracle-inexact"),
        ("outside the square", "outside-square"),
        ("outside the sub-square", "outside-subsquare"),
        ("is rejected", "valid-record-rejected"),
        ("prefix of an accepted", "prefix-rejected"),
        ("different number of points", "point-count"),
        ("depends on bases after", "not-prefix-determined"),
    ],
)


# ---------------------------------------------------------------------------
# C12
def c12_instances(tier, seed):
    out = []

    def body(k, n, norm, core=True, timeout=1800):
        out.append(Inst("c12_%s_k%d_n%d" % ("norm" if norm else "raw", k, n), "verif_c12", "composition",
                        "c12_body::<%d, %d, %s>(&RANK_K%d, &INV_K%d, COUNT_K%d)" % (k, n, "true" if norm else "false", k, k, k),
                        max(n + 2, 4 ** k + 2, kcount_of(k) + 2),
                        {"clause": "(x,y) = CGR end point of the column's k-mer, f = oligo value (%s)" % ("normalised" if norm else "raw"), "k": k,
                         "max_len": n, "len": "symbolic 0..=%d" % n, "square": "symbolic 1..=2^20", "column": "symbolic", "tables": [k]},
                        core=core, timeout=timeout, cost=50.0 * n * k))

    def rowindep(k, n, core=True, timeout=1800):
        out.append(Inst("c12_rowindep_k%d_n%d" % (k, n), "verif_c12", "composition",
                        "c12_rowindep::<%d, %d>(&RANK_K%d, &INV_K%d, COUNT_K%d)" % (k, n, k, k, k), max(n + 2, kcount_of(k) + 2),
                        {"clause": "(x,y) of a column is the same in every row", "k": k, "len": n, "square": "symbolic 1..=2^20", "norm": "symbolic",
                         "column": "symbolic", "tables": [k]}, core=core, timeout=timeout, cost=50.0 * n * k))

    ks = [1, 2] if tier == "quick" else [1, 2, 3]
    for k in ks:
        n = k + 3
        body(k, n, True, core=(k <= 2))
        body(k, n, False, core=(k <= 2))
        rowindep(k, k + 1, core=(k <= 2))
    return out


PROPS["C12"] = Prop(
    "C12",
    modules=[Module("composition", "verif_c12", "harness/composition/verif_c12.rs", parent="oligocgr")],
    functions=["composition::oligocgr::OligoCgrComputer::vectorise_one (private)", "composition::oligocgr::OligoCgrComputer::seq_to_kmer (private)",
               "composition::oligocgr::OligoCgrComputer::cgr_maps (private)", "kmer::numeric_to_kmer", "kmer::kmer::KmerGenerator::{new,next}"],
    assumptions=COMMON_ASSUME + [HASHMAP_NOTE, BIO_NOTE,
                                 "the struct is built directly (OligoCgrComputer::new calls rayon::current_num_threads); its kmers vector is built as `new` builds it "
                                 "(numeric_to_kmer over the index-to-k-mer table) from the tables of a native run of the real kmer_pos_maps(k)"],
    outside=["row order / threads / batch limit of vectorise() (I/O + rayon)", "k > 2 (quick) / k > 3 (thorough)", "records longer than k+3",
             "the wiring inside OligoCgrComputer::new"],
    instances=c12_instances,
    shims=["hashmap", "bio"],
    generate=gen_tables,
    roles=[
        ("of a record fails", "record-rejected"),
        ("one triple per", "row-length"),
        ("chaos-game end point", "wrong-position"),
        ("normalised oligo frequency", "wrong-frequency"),
        ("raw oligo count", "wrong-frequency"),
        ("differs between rows", "position-depends-on-record"),
    ],
)


# ---------------------------------------------------------------------------
# C08
def c08_instances(tier, seed):
    out = []

    def inst(k, n, e, bins, norm, core=True, timeout=1800):
        out.append(Inst("c08_%s_k%d_n%d_e%d_b%d" % ("norm" if norm else "raw", k, n, e, bins), "verif_c08", "coverage",
                        "c08_body::<%d, %d, %d, %d, %s>()" % (k, n, e, bins, "true" if norm else "false"), max(n + 2, e + 2, bins + 2),
                        {"clause": "per-record histogram for any counts table (%s)" % ("normalised" if norm else "raw"), "k": k, "max_len": n,
                         "len": "symbolic 0..=%d" % n, "table_entries": e, "multiplicities": "symbolic u32", "bin_size": "symbolic 1..=2^32",
                         "bin_count": "symbolic 1..=%d" % bins, "bin": "symbolic"}, core=core, timeout=timeout, cost=60.0 * n * e))

    if tier == "quick":
        inst(2, 4, 2, 3, False)
        inst(2, 4, 2, 3, True)
        inst(3, 5, 2, 4, False)
    else:
        for k, n in ((2, 4), (2, 5), (3, 5)):
            inst(k, n, 3, 4, False, core=(n <= 4))
            inst(k, n, 3, 4, True, core=(n <= 4))
        inst(31, 32, 2, 4, False, core=False, timeout=3600)
        inst(31, 32, 2, 4, True, core=False, timeout=3600)
    return out


PROPS["C08"] = Prop(
    "C08",
    modules=[Module("coverage", "verif_c08", "harness/coverage/verif_c08.rs")],
    functions=["coverage::CovComputer::vectorise_one (private)", "kmer::kmer::KmerGenerator::{new,next}", "f64 binning (count as f64 / bin_size as f64).floor()"],
    assumptions=COMMON_ASSUME + [HASHMAP_NOTE, BIO_NOTE,
                                 "the counts table is an arbitrary map with <= table_entries distinct keys and arbitrary u32 multiplicities (the table the counter would produce is one of them)",
                                 "the struct is built directly (CovComputer::new calls rayon::current_num_threads)"],
    outside=["build_table (counting + merge + temp-file round trip)", "row order, batching and flush conditions of compute_coverages", "thread-count independence",
             "textual formatting of the row", "records longer than max_len, tables with more entries"],
    instances=c08_instances,
    shims=["hashmap", "bio"],
    roles=[
        ("bin-count entries", "row-length"),
        ("normalised entry", "wrong-fraction"),
        ("entry is not the number", "wrong-bin-count"),
        ("all-zero row", "empty-record-row"),
    ],
)
