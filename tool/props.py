"""Registry of claimed properties: which real functions each one encodes,
which harness modules are injected where, and the bound tables per tier."""
import random


class Inst:
    def __init__(self, name, module, pkg, body, unwind, desc, core=True, timeout=600, cost=1.0, attrs=(), features=(), require_opt=()):
        self.name = name
        self.module = module  # harness module (file) the instance lives in
        self.pkg = pkg  # cargo package passed to `cargo kani -p`
        self.body = body
        self.unwind = unwind
        self.desc = desc
        self.core = core
        self.timeout = timeout
        self.cost = cost
        self.attrs = list(attrs)
        self.features = list(features)
        self.require_opt = set(require_opt)
        self.modpath = None

    def full_name(self):
        return "%s::%s" % (self.modpath or self.module, self.name)


class Module:
    def __init__(self, crate, name, src, parent=""):
        self.crate = crate
        self.name = name
        self.src = src
        self.parent = parent  # "" = child of the crate root, "oligo" = child of src/oligo.rs


class Prop:
    def __init__(self, pid, modules, functions, assumptions, outside, instances, shims=(), generate=None, roles=None):
        self.pid = pid
        self.modules = modules
        self.functions = functions
        self.assumptions = assumptions
        self.outside = outside
        self._instances = instances
        self.shims = list(shims)
        self.generate = generate
        self.roles = roles or []

    def instances(self, tier, seed):
        insts = self._instances(tier, seed)
        mods = {m.name: m for m in self.modules}
        for i in insts:
            m = mods[i.module]
            i.modpath = ("%s::%s" % (m.parent, m.name)) if m.parent else m.name
        return insts

    def role_of(self, desc):
        """Role of a failed check = what known_findings.txt is keyed by."""
        for pat, role in self.roles:
            if pat in desc:
                return role
        d = desc.lower()
        for pat, role in (
            ("overflow", "arithmetic-overflow-in-real-code"),
            ("index out of bounds", "index-out-of-bounds-in-real-code"),
            ("dereference failure", "invalid-pointer-dereference"),
            ("unwrap()", "unwrap-on-none"),
        ):
            if pat in d:
                return role
        return "other:" + "".join(c if c.isalnum() else "-" for c in desc)[:60]


COMMON_ASSUME = [
    "Kani 0.68 / CBMC 6.11 / CaDiCaL and Kani's models of core/alloc are sound",
    "dev-profile semantics (overflow checks on) as compiled by Kani's pinned toolchain; release-profile behaviour is exercised only by native replays",
    "sequence bytes are assumed > 0x03 where the property leaves 0x00-0x03 unspecified",
]

PROPS = {}


def rot(seed, pool, n):
    """seed-rotated choice of n extra elements of pool (never changes a verdict, only which extra instances run)."""
    if not pool or n <= 0:
        return []
    r = random.Random(seed)
    p = list(pool)
    r.shuffle(p)
    return p[:n]


# ---------------------------------------------------------------------------
# C01
def c01_instances(tier, seed):
    out = []
    if tier == "quick":
        ks = [1, 2, 3, 4, 5, 15, 16, 30, 31]
        ks += rot(seed, [k for k in range(6, 30) if k not in (15, 16)], 2)
    else:
        ks = list(range(1, 32))
    for k in sorted(set(ks)):
        n = k + 6 if k <= 8 else k + 3
        out.append(
            Inst(
                "c01_k%d_n%d" % (k, n), "verif_c01", "kmer", "c01_body::<%d, %d>()" % (k, n), n + 2,
                {"k": k, "max_len": n, "len": "symbolic 0..=%d" % n, "bytes": "symbolic 0x04..=0xFF"},
                core=True, timeout=900, cost=float(n),
                require_opt=(["opt: k-mers resumed after an ambiguous byte"] if n >= 2 * k + 1 else []),
            )
        )
    return out


PROPS["C01"] = Prop(
    "C01",
    modules=[Module("kmer", "verif_c01", "harness/kmer/verif_c01.rs")],
    functions=["kmer::kmer::KmerGenerator::new", "<kmer::kmer::KmerGenerator as Iterator>::next", "kmer::kmer::SEQ_NT4_TABLE"],
    assumptions=COMMON_ASSUME,
    outside=["sequences longer than max_len of the instance (no induction claimed)", "the Python wrapper (delegation only; see C13)"],
    instances=c01_instances,
    roles=[
        ("a valid window is not yielded", "valid-window-missing"),
        ("forward code differs", "wrong-forward-code"),
        ("reverse-strand code differs", "wrong-reverse-code"),
        ("not below 4^k", "code-out-of-range"),
        ("not a valid window", "spurious-item"),
        ("yields again after", "not-fused"),
    ],
)
