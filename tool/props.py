"""Registry of claimed properties: which real functions each one encodes,
which harness modules are injected where, and the bound tables per tier."""
import random


class Inst:
    def __init__(self, name, module, pkg, body, unwind, desc, core=True, timeout=600, cost=1.0, attrs=(), features=(), require_opt=(), unwindset=(), expect_fail=None, mem=2):
        self.name = name
        self.module = module  # harness module (file) the instance lives in
        self.pkg = pkg  # cargo package passed to `cargo kani -p`
        self.body = body
        self.unwind = unwind
        self.desc = desc
        self.core = core
        self.timeout = timeout
        self.cost = cost
        self.attrs = list(attrs)
        self.features = list(features)
        self.require_opt = set(require_opt)
        self.unwindset = list(unwindset)
        self.expect_fail = expect_fail
        self.mem = mem  # expected peak resident set of the solver in GB (limits how many run side by side)
        self.modpath = None

    def full_name(self):
        return "%s::%s" % (self.modpath or self.module, self.name)


class Module:
    def __init__(self, crate, name, src, parent=""):
        self.crate = crate
        self.name = name
        self.src = src
        self.parent = parent  # "" = child of the crate root, "oligo" = child of src/oligo.rs


class Prop:
    def __init__(self, pid, modules, functions, assumptions, outside, instances, shims=(), generate=None, roles=None):
        self.pid = pid
        self.modules = modules
        self.functions = functions
        self.assumptions = assumptions
        self.outside = outside
        self._instances = instances
        self.shims = list(shims)
        self.generate = generate
        self.roles = roles or []

    def instances(self, tier, seed):
        insts = self._instances(tier, seed)
        if tier == "thorough":
            # the thorough tier always contains the quick tier; an instance that is not in the quick
            # tier's core set decides the exit code only where it was validated to finish (thorough_core)
            quick = self._instances("quick", seed)
            names = {i.name for i in insts}
            insts = [q for q in quick if q.name not in names] + insts
            qcore = {q.name for q in quick if q.core}
            if not getattr(self, "thorough_core", True):
                for i in insts:
                    if i.name not in qcore:
                        i.core = False
        mods = {m.name: m for m in self.modules}
        for i in insts:
            m = mods[i.module]
            i.modpath = ("%s::%s" % (m.parent, m.name)) if m.parent else m.name
        return insts

    def role_of(self, desc):
        """Role of a failed check = what known_findings.txt is keyed by."""
        for pat, role in self.roles:
            if pat in desc:
                return role
        d = desc.lower()
        for pat, role in (
            ("overflow", "arithmetic-overflow-in-real-code"),
            ("index out of bounds", "index-out-of-bounds-in-real-code"),
            ("dereference failure", "invalid-pointer-dereference"),
            ("unwrap()", "unwrap-on-none"),
        ):
            if pat in d:
                return role
        return "other:" + "".join(c if c.isalnum() else "-" for c in desc)[:60]


COMMON_ASSUME = [
    "Kani 0.68 / CBMC 6.11 / CaDiCaL and Kani's models of core/alloc are sound",
    "dev-profile semantics (overflow checks on) as compiled by Kani's pinned toolchain; release-profile behaviour is exercised only by native replays",
    "sequence bytes are assumed > 0x03 where the property leaves 0x00-0x03 unspecified",
]

PROPS = {}


def rot(seed, pool, n):
    """seed-rotated choice of n extra elements of pool (never changes a verdict, only which extra instances run)."""
    if not pool or n <= 0:
        return []
    r = random.Random(seed)
    p = list(pool)
    r.shuffle(p)
    return p[:n]


# ---------------------------------------------------------------------------
# C01
def c01_instances(tier, seed):
    out = []
    if tier == "quick":
        ks = [1, 2, 3, 4, 5, 15, 16, 30, 31]
        ks += rot(seed, [k for k in range(6, 30) if k not in (15, 16)], 2)
    else:
        ks = list(range(1, 32))
    for k in sorted(set(ks)):
        n = k + 6 if k <= 8 else k + 3
        out.append(
            Inst(
                "c01_k%d_n%d" % (k, n), "verif_c01", "kmer", "c01_body::<%d, %d>()" % (k, n), n + 2,
                {"k": k, "max_len": n, "len": "symbolic 0..=%d" % n, "bytes": "symbolic 0x04..=0xFF"},
                core=True, timeout=900, cost=float(n),
                require_opt=(["opt: k-mers resumed after an ambiguous byte"] if n >= 2 * k + 1 else []),
            )
        )
    return out


PROPS["C01"] = Prop(
    "C01",
    modules=[Module("kmer", "verif_c01", "harness/kmer/verif_c01.rs")],
    functions=["kmer::kmer::KmerGenerator::new", "<kmer::kmer::KmerGenerator as Iterator>::next", "kmer::kmer::SEQ_NT4_TABLE"],
    assumptions=COMMON_ASSUME,
    outside=["sequences longer than max_len of the instance (no induction claimed)", "the Python wrapper (delegation only; see C13)"],
    instances=c01_instances,
    roles=[
        ("a valid window is not yielded", "valid-window-missing"),
        ("forward code differs", "wrong-forward-code"),
        ("reverse-strand code differs", "wrong-reverse-code"),
        ("not below 4^k", "code-out-of-range"),
        ("not a valid window", "spurious-item"),
        ("yields again after", "not-fused"),
    ],
)


# ---------------------------------------------------------------------------
# C09
def c09_inst(w, m, n, length=None, core=True, timeout=2400):
    r = n - w + 3 if n >= w else 3
    unw = n + 2
    if length is None:
        name = "c09_w%d_m%d_n%d_sym" % (w, m, n)
        body = "c09_symlen::<%d, %d, %d, %d>()" % (w, m, n, r)
        ld = "symbolic 0..=%d" % n
        nn = n
    else:
        name = "c09_w%d_m%d_l%d" % (w, m, length)
        r = length - w + 3 if length >= w else 3
        body = "c09_fixed::<%d, %d, %d, %d>()" % (w, m, length, r)
        ld = str(length)
        nn = length
        unw = length + 2
    unw = max(unw, w + 2, r + 1)
    return Inst(name, "verif_c09", "kmer", body, unw, {"w": w, "m": m, "len": ld, "bytes": "symbolic 0x04..=0xFF"},
                core=core, timeout=timeout, cost=float(nn * (w - m + 2)),
                unwindset=[("kmer/src/minimiser.rs", r"for\s+\w+\s+in\s+0\.\.self\.buff\.len\(\)", w - m + 3)],
                mem=(8 if nn >= w + 3 else (3 if nn >= w + 2 else 2)))


def c09_instances(tier, seed):
    out = []
    quick = [(1, 1), (2, 1), (2, 2), (3, 2), (3, 3), (4, 2), (5, 3)]
    for (w, m) in quick:
        # quick: every length up to w+2 (w+3 for the smallest windows); thorough: up to w+3 everywhere
        # quick (must stay well below 15 min): every length up to w+2 (w+1 for w >= 4); thorough: up to w+3
        top = w + 3 if tier == "thorough" else (w + 2 if w <= 3 else w + 1)
        for length in range(0, top + 1):
            out.append(c09_inst(w, m, w + 3, length, timeout=2400))
    if tier == "thorough":
        for (w, m) in [(4, 1), (6, 3), (6, 5), (8, 5)]:
            for length in range(0, w + 3):
                out.append(c09_inst(w, m, w + 2, length, core=False, timeout=3600))
        for (w, m) in [(31, 31), (32, 31)]:
            for length in sorted({m - 1, w - 1, w, w + 1}):
                out.append(c09_inst(w, m, w + 1, length, core=False, timeout=3600))
    return out


PROPS["C09"] = Prop(
    "C09",
    modules=[Module("kmer", "verif_c09", "harness/kmer/verif_c09.rs")],
    functions=["kmer::minimiser::MinimiserGenerator::new", "<kmer::minimiser::MinimiserGenerator as Iterator>::next", "kmer::minimiser::SEQ_NT4_TABLE"],
    assumptions=COMMON_ASSUME + [
        "std::collections::VecDeque is replaced under cfg(kani) by a fixed-capacity queue model (shim/containers.rs); exceeding its capacity is a reported failure; native replays use the std VecDeque",
    ],
    outside=["sequences longer than the instance length", "(w,m) pairs not in the bound table", "pybindings wrapper (see C13)"],
    instances=c09_instances,
    shims=["vecdeque"],
    roles=[
        ("not reported (iterator ended early)", "run-missing"),
        ("not the minimiser of the run", "wrong-minimiser"),
        ("reported start", "wrong-start"),
        ("reported end", "wrong-end"),
        ("corresponds to no run", "spurious-item"),
    ],
)


# ---------------------------------------------------------------------------
# C18
BUFF_LOOP = r"for\s+\w+\s+in\s+0\.\.self\.buff\.len\(\)"


def c18_inst(w, m, length, core=True, timeout=2400):
    r = length - w + 3 if length >= w else 3
    unw = max(length + 2, w + 2, r + 1)
    return Inst(
        "c18_w%d_m%d_l%d" % (w, m, length), "verif_c18", "kmer", "c18_fixed::<%d, %d, %d, %d>()" % (w, m, length, r), unw,
        {"w": w, "m": m, "len": str(length), "bytes": "symbolic 0x04..=0xFF"}, core=core, timeout=timeout,
        cost=float(length * (w - m + 2)),
        unwindset=[("kmer/src/minimiser.rs", BUFF_LOOP, w - m + 3), ("kmer/src/kmer_minimisers.rs", BUFF_LOOP, w - m + 3)],
        mem=(10 if length >= w + 2 else (5 if length >= w + 1 else 2)),
    )


def c18_instances(tier, seed):
    # whole-run harness: cost grows ~4-5x per extra base (two iterators, R calls each
    # unrolled to the sequence length): L <= w+1 in the quick tier, w+2 in the thorough tier
    out = []
    for (w, m) in [(2, 1), (2, 2), (3, 2), (3, 3)]:
        for length in range(0, w + 2):
            out.append(c18_inst(w, m, length))
    if tier == "thorough":
        for (w, m) in [(2, 1), (2, 2), (3, 2), (3, 3)]:
            out.append(c18_inst(w, m, w + 2, core=False, timeout=3000))
        for (w, m) in [(4, 2), (5, 3)]:
            for length in range(0, w + 2):
                out.append(c18_inst(w, m, length, core=False, timeout=3000))
        for length in (30, 31, 32):
            out.append(c18_inst(31, 31, length, core=False, timeout=3600))
    return out


PROPS["C18"] = Prop(
    "C18",
    modules=[Module("kmer", "verif_c18", "harness/kmer/verif_c18.rs")],
    functions=[
        "kmer::kmer_minimisers::KmerMinimiserGenerator::new", "<kmer::kmer_minimisers::KmerMinimiserGenerator as Iterator>::next",
        "kmer::minimiser::MinimiserGenerator::{new,next}", "kmer::kmer::KmerGenerator::{new,next}",
    ],
    assumptions=COMMON_ASSUME + [
        "std::collections::VecDeque is replaced under cfg(kani) by a fixed-capacity ring model (shim/containers.rs); native replays use the std VecDeque",
        "the Vec<Kmer> attached to each run is replaced under cfg(kani) by a fixed-capacity (12) model via one added import line in kmer_minimisers.rs (real Vec::push with data-dependent pushes re-allocates with symbolic sizes: 10 GB at w=3, L=5); native replays use alloc::vec::Vec",
    ],
    outside=["sequences longer than the instance length", "(w,m) pairs not in the bound table"],
    instances=c18_instances,
    shims=["vecdeque", "kvec"],
    roles=[
        ("minimiser of a run differs", "run-minimiser-differs"),
        ("start of a run differs", "run-start-differs"),
        ("end of a run differs", "run-end-differs"),
        ("ends before the plain", "run-missing-vs-plain"),
        ("does not have", "run-extra-vs-plain"),
        ("w-mer is lost", "wmer-lost"),
        ("not the canonical w-mers", "wmer-wrong"),
        ("more k-mers attached", "wmer-extra"),
        ("no w-mer of a valid window", "wmer-extra"),
    ],
)


# ---------------------------------------------------------------------------
# C02
def c02_instances(tier, seed):
    out = []
    ks = list(range(1, 32)) if tier == "thorough" else sorted(set([1, 2, 3, 4, 7, 8, 15, 16, 30, 31] + rot(seed, range(5, 30), 3)))
    for k in ks:
        out.append(Inst("c02_revcomp_k%d" % k, "verif_c02", "kmer", "c02_revcomp::<%d>()" % k, k + 2,
                        {"clause": "(a)+(b) rev_comp involution and text-level agreement", "k": k, "x": "symbolic, all codes < 4^k"},
                        core=True, timeout=600, cost=float(k)))
    dks = [1, 2] if tier == "quick" else [1, 2, 3]
    for k in dks:
        out.append(Inst("c02_decode_k%d" % k, "verif_c02", "kmer", "c02_decode::<%d>()" % k, k + 3,
                        {"clause": "(c) numeric_to_kmer decode/re-encode", "k": k, "x": "symbolic, all codes < 4^k"},
                        core=(k <= 2), timeout=900 if k <= 2 else 3000, cost=100.0 * k))
    sks = [1, 2, 3, 4, 5, 8] if tier == "quick" else [1, 2, 3, 4, 5, 8, 15, 16, 31]
    for k in sks:
        n = k + 3
        out.append(Inst("c02_stream_k%d_n%d" % (k, n), "verif_c02", "kmer", "c02_stream::<%d, %d, %d>()" % (k, n, n - k + 2), n + 2,
                        {"clause": "(d) strand symmetry of the k-mer stream", "k": k, "max_len": n, "len": "symbolic 0..=%d" % n},
                        core=(k <= 8), timeout=1200, cost=3.0 * n))
    return out


PROPS["C02"] = Prop(
    "C02",
    modules=[Module("kmer", "verif_c02", "harness/kmer/verif_c02.rs")],
    functions=["kmer::kmer::KmerGenerator::rev_comp", "kmer::numeric_to_kmer", "kmer::kmer::KmerGenerator::{new,next}"],
    assumptions=COMMON_ASSUME,
    outside=[
        "text decoding (numeric_to_kmer) of a SYMBOLIC code for k > 2 (k = 3 is attempted in the thorough tier and exceeded 12 GB when probed): String::push / chars().rev().collect() fork on every symbolic letter; larger k is decided only where the code is concrete (headers, C03)",
        "stream symmetry for sequences longer than k+3",
    ],
    instances=c02_instances,
    roles=[
        ("not a k-mer code", "revcomp-out-of-range"),
        ("differs from the code of the reverse-complemented text", "revcomp-wrong"),
        ("twice does not return", "revcomp-not-involution"),
        ("exactly k letters", "decode-length"),
        ("outside ACGT", "decode-alphabet"),
        ("does not give the code back", "decode-roundtrip"),
        ("different numbers of k-mers", "stream-count"),
        ("second component", "second-not-revcomp"),
        ("reversed stream", "stream-not-mirrored"),
        ("canonical k-mers differ", "canonical-differs"),
        ("more k-mers than windows", "stream-count"),
    ],
)


MAPU = 34  # the map/set model's lookup loops run MAP_CAP = 32 times

# loops of the REAL code whose trip count depends on a symbolic length: bounded per loop
# (discovered in the goto binary by source text; unwinding assertions stay on)


def kmer_loop(n):
    # at least 12: the loop body is small, and equal bounds let instances share one cargo-kani invocation
    return ("kmer/src/kmer.rs", r"^\s*loop\s*\{", max(n + 2, 12))


def cgr_loop(n):
    return ("composition/src/cgr.rs", r"for\s+s\s+in\s+seq\.iter\(\)", n + 2)


def pycgr_loop(n):
    return ("pybindings/src/cgr.rs", r"for\s+s\s+in\s+seq\.as_bytes\(\)\.iter\(\)", n + 2)


def ocgr_kmer_loop(k):
    return ("composition/src/oligocgr.rs", r"for\s+s\s+in\s+kmer\.as_bytes\(\)", k + 2)


# ---------------------------------------------------------------------------
# C03
import importlib.util as _ilu
import os as _os

_spec = _ilu.spec_from_file_location("tables", _os.path.join(_os.path.dirname(_os.path.dirname(_os.path.abspath(__file__))), "harness/common/tables.py"))
tables = _ilu.module_from_spec(_spec)
_spec.loader.exec_module(tables)


def table_ks(insts):
    ks = set()
    for i in insts:
        for k in i.desc.get("tables", []):
            ks.add(k)
    if ks:
        ks |= {1, 2, 3}  # the kmer_pos_maps stand-ins of the constructor stubs name the k <= 3 tables
    return sorted(ks)


def gen_tables(inj, insts):
    ks = table_ks(insts)
    if not ks:
        return {"TABLES": ""}
    tabs = tables.dump_tables(inj, ks)
    inj.extra_evidence["tables_by_native_run_of_real_kmer_pos_maps"] = {str(k): {"count": tabs[k][0], "rank_entries": len(tabs[k][1])} for k in tabs}
    return {"TABLES": tables.rust_tables(tabs)}


HEADER_DUMP_MAIN = """
fn main() {
    for k in [%s] {
        let names = composition::oligo::verif_dumph::header_names(k);
        println!("HK {} {}", k, names.len());
        for n in names { println!("HN {} {}", k, n); }
    }
}
"""


def gen_c03(inj, insts):
    gen = gen_tables(inj, insts)
    hks = sorted({k for i in insts for k in i.desc.get("header_dump", [])})
    gen["HEADERS"] = ""
    if hks:
        out = inj.native_run("composition", HEADER_DUMP_MAIN % ", ".join("%dusize" % k for k in hks), ["composition"], "headers")
        names = {}
        for line in out.splitlines():
            if line.startswith("HN "):
                _, k, n = line.split(" ", 2)
                names.setdefault(int(k), []).append(n)
        src = []
        import inject as _inject
        for k in hks:
            ns = names.get(k, [])
            if any(len(n.encode()) != k for n in ns):
                # a name of the wrong length cannot be embedded in [[u8; K]]: keep the evidence and fail the instance visibly
                bad = [n for n in ns if len(n.encode()) != k][:3]
                raise _inject.InjectError("header dump for k=%d holds names that do not have k bytes: %r" % (k, bad))
            src.append("pub static HEADER_K%d: [[u8; %d]; %d] = [%s];" % (k, k, len(ns), ", ".join('*b"%s"' % n for n in ns)))
        gen["HEADERS"] = "\n".join(src) + "\n"
        inj.extra_evidence["headers_by_native_run_of_real_new_and_get_header"] = {str(k): len(names.get(k, [])) for k in hks}
    pks = sorted({k for i in insts for k in i.desc.get("pyheader_dump", [])})
    gen["PYHEADERS"] = ""
    if pks:
        main = HEADER_DUMP_MAIN.replace("composition::oligo::verif_dumph", "pybindings::oligo::verif_dumpp") % ", ".join("%dusize" % k for k in pks)
        out = inj.native_run("pybindings", main, ["pybindings"], "pyheaders")
        names = {}
        for line in out.splitlines():
            if line.startswith("HN "):
                _, k, n = line.split(" ", 2)
                names.setdefault(int(k), []).append(n)
        src = []
        import inject as _inject
        for k in pks:
            ns = names.get(k, [])
            if any(len(n.encode()) != k for n in ns):
                raise _inject.InjectError("Python header dump for k=%d holds names that do not have k bytes: %r" % (k, [n for n in ns if len(n.encode()) != k][:3]))
            src.append("pub static PYHEADER_K%d: [[u8; %d]; %d] = [%s];" % (k, k, len(ns), ", ".join('*b"%s"' % n for n in ns)))
        gen["PYHEADERS"] = "\n".join(src) + "\n"
        inj.extra_evidence["python_headers_by_native_run_of_real_new_and_get_header"] = {str(k): len(names.get(k, [])) for k in pks}
    return gen


def c03_instances(tier, seed):
    out = []
    for k in ((1,) if tier == "quick" else (1, 2)):
        out.append(Inst("c03_insolver_k%d" % k, "verif_c03", "kmer", "c03_insolver::<%d>(&RANK_K%d, &INV_K%d, COUNT_K%d)" % (k, k, k, k), MAPU,
                        {"clause": "encoding validation: real kmer_pos_maps executed by the solver equals the native table", "k": k, "tables": [k]},
                        core=(k == 1), timeout=1500, cost=300.0 * k))
    tks = [1, 2, 3, 4, 5, 6] if tier == "quick" else [1, 2, 3, 4, 5, 6, 7, 8]
    for k in tks:
        out.append(Inst("c03_table_k%d" % k, "verif_c03", "kmer",
                        "c03_table::<%d>(&RANK_K%d, &INV_K%d, COUNT_K%d, INVLEN_K%d)" % (k, k, k, k, k), k + 3,
                        {"clause": "bijection; table by native run of the real kmer_pos_maps, quantified obligations by the solver", "k": k,
                         "x,y": "symbolic, all codes < 4^k", "p": "symbolic column", "tables": [k]},
                        core=(k <= 6), timeout=1500, cost=10.0 * k))
    hks = [1, 2, 3]  # the map model holds 32 entries: k <= 3 (32 columns)
    for k in hks:
        for rev in (False, True):
            sfx = "_rev" if rev else ""
            out.append(Inst("c03_header_k%d%s" % (k, sfx), "verif_c03h", "composition",
                            "c03_header::<%d>(&RANK_K%d, &INV_K%d, COUNT_K%d, &OCANON_K%d)" % (k, k, k, k, k), MAPU,
                            {"clause": "CLI header names the canonical k-mers in column order", "k": k, "columns": "all (concrete walk)",
                             "map_model_iteration": "reversed" if rev else "insertion order", "tables": [k]},
                            core=True, timeout=1800, cost=40.0 * 4 ** k, features=(["kmer/verif_rev_iter"] if rev else [])))
        out.append(Inst("c03_pyheader_k%d" % k, "verif_c03p", "pybindings", "c03_pyheader::<%d>(&RANK_K%d, &INV_K%d, COUNT_K%d, &OCANON_K%d)" % (k, k, k, k, k),
                        MAPU,
                        {"clause": "Python binding header names the canonical k-mers in column order", "k": k, "columns": "all (concrete walk)", "tables": [k]},
                        core=True, timeout=1800, cost=40.0 * 4 ** k))
    for k in ((4, 5) if tier == "quick" else (4, 5, 6, 7)):
        out.append(Inst("c03_header_dump_k%d" % k, "verif_c03h", "composition", "c03_header_dump::<%d>(&HEADER_K%d, &OCANON_K%d)" % (k, k, k), MAPU,
                        {"clause": "CLI header (real new + get_header, dumped by a native run) names the canonical k-mers in column order", "k": k,
                         "p": "symbolic column", "header_dump": [k]}, core=(k <= 5), timeout=1500, cost=20.0 * k))
    for k in ((4, 5) if tier == "quick" else (4, 5, 6, 7)):
        out.append(Inst("c03_pyheader_dump_k%d" % k, "verif_c03p", "pybindings", "c03_pyheader_dump::<%d>(&PYHEADER_K%d, &OCANON_K%d)" % (k, k, k), MAPU,
                        {"clause": "Python binding header (real new + get_header, dumped by a native run) names the canonical k-mers in column order", "k": k,
                         "p": "symbolic column", "pyheader_dump": [k]}, core=(k <= 5), timeout=1500, cost=20.0 * k))
    out.append(Inst("c03_pynew_k1", "verif_c03p", "pybindings", "c03_pynew::<1>(&RANK_K1, &INV_K1, COUNT_K1)", MAPU,
                    {"clause": "binding constructor executed by the solver stores the native tables", "k": 1, "tables": [1]}, core=False, timeout=1500, cost=300.0))
    return out


HASHMAP_NOTE = ("std HashMap/HashSet are replaced under cfg(kani) by fixed-capacity (32) association-list models (shim/containers.rs; RandomState needs a getrandom syscall Kani "
                "cannot model); iteration order of the model = insertion order (and reversed where stated); native replays use the std containers")
BIO_NOTE = "the `bio` crate is patched by a stand-in in Kani builds (it does not compile under kani-compiler); none of its code is executed by this check"

PROPS["C03"] = Prop(
    "C03",
    modules=[
        Module("kmer", "verif_c03", "harness/kmer/verif_c03.rs"),
        Module("composition", "verif_c03h", "harness/composition/verif_c03h.rs", parent="oligo"),
        Module("pybindings", "verif_c03p", "harness/pybindings/verif_c03p.rs", parent="oligo"),
    ],
    functions=[
        "kmer::kmer::KmerGenerator::kmer_pos_maps", "kmer::kmer::KmerGenerator::rev_comp", "composition::oligo::OligoComputer::get_header (private)",
        "pybindings::oligo::OligoComputer::{get_header, new (k=1)}", "kmer::numeric_to_kmer",
    ],
    assumptions=COMMON_ASSUME + [HASHMAP_NOTE, BIO_NOTE,
                                 "for k >= 4 the rank/inverse tables are produced by running the real kmer_pos_maps(k) natively on the snapshot (input-free function) and embedded as constants; the quantified obligations over them are decided by the solver"],
    outside=["k = 9, 10 (tables of 2^18 / 2^20 entries)", "in-solver execution of get_header for k > 3 (the map model holds 32 entries); for k = 4..=7 the CLI header is dumped by a native run of the real new()+get_header() and the obligations over it are decided by the solver",
             "the wiring inside OligoComputer::new (calls rayon::current_num_threads) - the struct is built directly from the tables",
             "the join of the header vector with the delimiter presets (sits behind file I/O)", "OligoCgrComputer::new (calls rayon::current_num_threads)",
             "in-solver execution of the Python binding's header for k > 3 (k = 4..=7 by native dump + solver obligations, like the CLI side)"],
    instances=c03_instances,
    shims=["hashmap", "bio"],
    generate=gen_c03,
    roles=[
        ("4^k entries", "rank-table-size"),
        ("column count", "column-count"),
        ("one entry per column", "inverse-size"),
        ("canonical form differs", "canonical-form"),
        ("not a column index", "rank-out-of-range"),
        ("strictly increasing", "rank-order"),
        ("function of the canonical code", "rank-order"),
        ("not the inverse", "inverse-wrong"),
        ("no k-mer (not surjective)", "not-surjective"),
        ("not a k-mer code", "inverse-wrong"),
        ("column k-mer is not canonical", "column-not-canonical"),
        ("is not the column", "not-surjective"),
        ("one name per canonical", "header-length"),
        ("does not have k letters", "header-name"),
        ("outside ACGT", "header-name"),
        ("column order", "header-order"),
    ],
)


# ---------------------------------------------------------------------------
# C04
# the REAL constructor OligoComputer::new runs in the solver (k <= 3); two callees are stubbed
C04_STUBS = ["kani::stub(rayon::current_num_threads, crate::oligo::verif_c04::one_thread)",
             "kani::stub(kmer::kmer::KmerGenerator::kmer_pos_maps, crate::oligo::verif_c04::tables_stub)"]


def kcount_of(k):
    return (4 ** k + 4 ** (k // 2)) // 2 if k % 2 == 0 else 4 ** k // 2


def c04_instances(tier, seed):
    out = []

    def counts(k, n, norm, core=True, timeout=1500):
        out.append(Inst("c04_%s_k%d_n%d" % ("norm" if norm else "raw", k, n), "verif_c04", "composition",
                        "c04_counts::<%d, %d, %s>(&RANK_K%d, COUNT_K%d, &OCOL_K%d)" % (k, n, "true" if norm else "false", k, k, k),
                        max(n + 2, kcount_of(k) + 2, MAPU if k <= 3 else 0),
                        {"clause": "row = per-column window counts (%s)" % ("normalised" if norm else "raw"), "k": k, "max_len": n, "len": "symbolic 0..=%d" % n,
                         "column": "symbolic", "tables": [k]}, core=core, timeout=timeout, cost=20.0 * n * (2 if norm else 1) * kcount_of(k),
                        unwindset=[kmer_loop(n)], attrs=C04_STUBS, mem=(10 if k >= 4 else 3)))

    def inv(k, n, mode, core=True, timeout=1500):
        nm = ["revcomp", "case", "tu"][mode]
        out.append(Inst("c04_inv_%s_k%d_n%d" % (nm, k, n), "verif_c04", "composition",
                        "c04_invariance::<%d, %d, %d>(&RANK_K%d, COUNT_K%d)" % (k, n, mode, k, k), max(n + 2, kcount_of(k) + 2, MAPU if k <= 3 else 0),
                        {"clause": "row invariant under " + ["reverse complement", "letter case toggle", "U for T"][mode], "k": k, "max_len": n,
                         "len": "symbolic 0..=%d" % n, "norm": "symbolic", "column": "symbolic", "tables": [k]}, core=core, timeout=timeout,
                        cost=30.0 * n * kcount_of(k), unwindset=[kmer_loop(n)], attrs=C04_STUBS, mem=(10 if k >= 3 else 3)))

    if tier == "quick":
        for k, n in ((1, 4), (2, 5), (3, 5)):
            counts(k, n, False)
            counts(k, n, True, core=(k <= 2))
        for mode in (0, 1, 2):
            inv(2, 5, mode)
    else:
        for k in (1, 2, 3):
            for n in range(k + 3, 7):
                counts(k, n, False, core=(n <= 5))
                counts(k, n, True, core=(n <= 5 and k <= 2))
            for mode in (0, 1, 2):
                inv(k, 6, mode, core=False)
                inv(k, 5, mode, core=(k <= 2), timeout=2400)
        for k in (4, 5, 6, 7):
            counts(k, k + 1, False, core=False, timeout=3000)
            counts(k, k + 1, True, core=False, timeout=3000)
            inv(k, k + 1, 0, core=False, timeout=3000)
    return out


PROPS["C04"] = Prop(
    "C04",
    modules=[Module("composition", "verif_c04", "harness/composition/verif_c04.rs", parent="oligo")],
    functions=["composition::oligo::OligoComputer::vectorise_one (private)", "kmer::kmer::KmerGenerator::{new,next}", "f64 normalisation (IEEE division)"],
    assumptions=COMMON_ASSUME + [HASHMAP_NOTE, BIO_NOTE,
                                 "pos_map is the rank table produced by a native run of the real kmer_pos_maps(k) on the snapshot (C03 decides that table)",
                                 "k <= 3: the computer is built by the real public constructor OligoComputer::new + set_norm; under Kani rayon::current_num_threads is stubbed (-> 1) and "
                                 "KmerGenerator::kmer_pos_maps is stubbed by the native tables (C03 decides them); k >= 4: the struct is built directly from the native table; native replays use no stub",
                                 "'correct to 6 decimals' is discharged as bit-equality with the correctly rounded IEEE quotient count/total"],
    outside=["the textual row (format!(\"{:.6}\") - float formatting is not executed)", "file/CLI plumbing, batching, threads", "records longer than max_len",
             "k = 8", "the Python copy of this loop (C13)"],
    instances=c04_instances,
    shims=["hashmap", "bio"],
    generate=gen_tables,
    roles=[
        ("one value per canonical", "row-length"),
        ("column count is not", "row-length"),
        ("normalised value", "normalised-value-wrong"),
        ("not all-zero", "empty-record-row"),
        ("raw value", "raw-count-wrong"),
        ("differ in length", "row-length"),
        ("row changes under", "not-invariant"),
    ],
)


# ---------------------------------------------------------------------------
# C11
C11_STUBS = ["kani::stub(rayon::current_num_threads, crate::cgr::verif_c11::one_thread)"]


def c11_instances(tier, seed):
    out = []
    ns = [0, 1, 2, 3] if tier == "quick" else [0, 1, 2, 3, 4, 5, 6]
    for n in ns:
        out.append(Inst("c11_l%d" % n, "verif_c11", "composition", "c11_body::<%d>()" % n, MAPU,
                        {"clause": "midpoint rule, containment, rejection", "len": n, "bytes": "symbolic 0x00..=0xFF",
                         "square": "symbolic 1..=2^20"}, core=(n <= 3), timeout=1500 if n <= 3 else 3600, cost=30.0 * n * n + 1, unwindset=[cgr_loop(n)], attrs=C11_STUBS,
                        require_opt=(["opt: rejected record"] if n >= 1 else [])))
    pn = [2, 3] if tier == "quick" else [2, 3, 4, 5]
    for n in pn:
        out.append(Inst("c11_prefix_l%d" % n, "verif_c11", "composition", "c11_prefix::<%d>()" % n, MAPU,
                        {"clause": "prefix determinism", "len": n, "bytes": "symbolic 0x00..=0xFF", "square": "symbolic 1..=2^20"},
                        core=(n <= 3), timeout=1500 if n <= 3 else 3600, cost=40.0 * n * n, unwindset=[cgr_loop(n)], attrs=C11_STUBS))
    return out


PROPS["C11"] = Prop(
    "C11",
    modules=[Module("composition", "verif_c11", "harness/composition/verif_c11.rs", parent="cgr")],
    functions=["composition::cgr::cgr_maps", "composition::cgr::CgrComputer::vectorise_one (private)"],
    assumptions=[COMMON_ASSUME[0], COMMON_ASSUME[1], HASHMAP_NOTE, BIO_NOTE,
                 "the computer is built by the real public constructor CgrComputer::new; under Kani rayon::current_num_threads is stubbed (-> 1)",
                 "square sizes are integers 1..=2^20 converted to f64 (as the CLI does)"],
    outside=["records longer than the instance lengths (in particular lengths where the midpoints stop being exactly representable)",
             "the batch/file path of CgrComputer::vectorise (I/O, rayon, {} float formatting)", "the Python copy (C13)"],
    instances=c11_instances,
    shims=["hashmap", "bio"],
    roles=[
        ("non-nucleotide byte", "bad-byte-accepted"),
        ("one point per base", "point-count"),
        ("not the midpoint", "not-midpoint"),
        ("not exactly representable", "oracle-inexact"),
        ("outside the square", "outside-square"),
        ("outside the sub-square", "outside-subsquare"),
        ("is rejected", "valid-record-rejected"),
        ("prefix of an accepted", "prefix-rejected"),
        ("different number of points", "point-count"),
        ("depends on bases after", "not-prefix-determined"),
    ],
)


# ---------------------------------------------------------------------------
# C12
# the REAL constructor OligoCgrComputer::new runs in the solver; two callees are stubbed
C12_STUBS = ["kani::stub(rayon::current_num_threads, crate::oligocgr::verif_c12::one_thread)",
             "kani::stub(kmer::kmer::KmerGenerator::kmer_pos_maps, crate::oligocgr::verif_c12::tables_stub)"]


def c12_instances(tier, seed):
    out = []

    def body(k, n, norm, core=True, timeout=1800):
        out.append(Inst("c12_%s_k%d_l%d" % ("norm" if norm else "raw", k, n), "verif_c12", "composition",
                        "c12_body::<%d, %d, %s>(COUNT_K%d, &OCOL_K%d, &OCANON_K%d)" % (k, n, "true" if norm else "false", k, k, k),
                        MAPU,
                        {"clause": "(x,y) = CGR end point of the column's k-mer, f = oligo value (%s)" % ("normalised" if norm else "raw"), "k": k,
                         "len": n, "square": "symbolic 1..=2^20", "column": "symbolic", "tables": [1, 2, 3]},
                        core=core, timeout=timeout, cost=50.0 * n * kcount_of(k) + 1, unwindset=[kmer_loop(n), ocgr_kmer_loop(k)], attrs=C12_STUBS,
                        mem=(10 if k >= 2 else 2)))

    def rowindep(k, n, core=True, timeout=1800):
        out.append(Inst("c12_rowindep_k%d_l%d" % (k, n), "verif_c12", "composition",
                        "c12_rowindep::<%d, %d>(COUNT_K%d)" % (k, n, k), MAPU,
                        {"clause": "(x,y) of a column is the same in every row", "k": k, "len": n, "square": "symbolic 1..=2^20", "norm": "symbolic",
                         "column": "symbolic", "tables": [1, 2, 3]}, core=core, timeout=timeout, cost=50.0 * n * kcount_of(k),
                        unwindset=[kmer_loop(n), ocgr_kmer_loop(k)], attrs=C12_STUBS, mem=(10 if k >= 2 else 3)))

    if tier == "quick":
        for n in (0, 1, 3):
            body(1, n, True)
            body(1, n, False)
        rowindep(1, 2)
    else:
        for k in (1, 2, 3):
            for n in range(0, k + 4):
                body(k, n, True, core=(k == 1), timeout=3600)
                body(k, n, False, core=(k == 1), timeout=3600)
            rowindep(k, k + 1, core=(k == 1), timeout=3600)
    return out


PROPS["C12"] = Prop(
    "C12",
    modules=[Module("composition", "verif_c12", "harness/composition/verif_c12.rs", parent="oligocgr")],
    functions=["composition::oligocgr::OligoCgrComputer::vectorise_one (private)", "composition::oligocgr::OligoCgrComputer::seq_to_kmer (private)",
               "composition::oligocgr::OligoCgrComputer::cgr_maps (private)", "kmer::numeric_to_kmer", "kmer::kmer::KmerGenerator::{new,next}"],
    assumptions=COMMON_ASSUME + [HASHMAP_NOTE, BIO_NOTE,
                                 "the computer is built by the real public constructor OligoCgrComputer::new + set_norm; under Kani rayon::current_num_threads is stubbed (-> 1) and "
                                 "KmerGenerator::kmer_pos_maps is stubbed by the tables of a native run of the real function on the snapshot (C03 decides those tables); native replays use no stub"],
    outside=["row order / threads / batch limit of vectorise() (I/O + rayon)", "k > 2 (quick) / k > 3 (thorough; k = 2, 3 are optional deepening instances there)", "records longer than k+3"],
    instances=c12_instances,
    shims=["hashmap", "bio"],
    generate=gen_tables,
    roles=[
        ("of a record fails", "record-rejected"),
        ("one triple per", "row-length"),
        ("chaos-game end point", "wrong-position"),
        ("normalised oligo frequency", "wrong-frequency"),
        ("raw oligo count", "wrong-frequency"),
        ("differs between rows", "position-depends-on-record"),
    ],
)


# ---------------------------------------------------------------------------
# C08
C08_STUBS = ["kani::stub(rayon::current_num_threads, crate::verif_c08::one_thread)"]


def c08_instances(tier, seed):
    out = []

    def inst(k, n, e, bins, norm, maxbin_log2, core=True, timeout=1800):
        out.append(Inst("c08_%s_k%d_n%d_e%d_b%d_s%d" % ("norm" if norm else "raw", k, n, e, bins, maxbin_log2), "verif_c08", "coverage",
                        "c08_body::<%d, %d, %d, %d, %s, %d>()" % (k, n, e, bins, "true" if norm else "false", 2 ** maxbin_log2), MAPU,
                        {"clause": "per-record histogram for any counts table (%s)" % ("normalised" if norm else "raw"), "k": k, "max_len": n,
                         "len": "symbolic 0..=%d" % n, "table_entries": e, "multiplicities": "symbolic u32", "bin_size": "symbolic 1..=2^%d" % maxbin_log2,
                         "bin_count": bins, "bin": "symbolic"}, core=core, timeout=timeout, cost=60.0 * n * e,
                        unwindset=[kmer_loop(n)], attrs=C08_STUBS))

    if tier == "quick":
        inst(2, 4, 2, 3, False, 8)
        inst(2, 4, 2, 3, True, 8)
        inst(2, 3, 1, 1, True, 8)
    else:
        for k, n in ((2, 4), (2, 5), (3, 5)):
            for bins in (1, 2, 4):
                inst(k, n, 3, bins, False, 8, core=(n <= 4))
                inst(k, n, 3, bins, True, 8, core=(n <= 4))
        inst(2, 3, 1, 2, False, 16, core=False, timeout=3600)
        inst(2, 3, 1, 2, False, 32, core=False, timeout=3600)
        inst(31, 32, 2, 4, False, 8, core=False, timeout=3600)
        inst(31, 32, 2, 4, True, 8, core=False, timeout=3600)
    return out


PROPS["C08"] = Prop(
    "C08",
    modules=[Module("coverage", "verif_c08", "harness/coverage/verif_c08.rs")],
    functions=["coverage::CovComputer::vectorise_one (private)", "kmer::kmer::KmerGenerator::{new,next}", "f64 binning (count as f64 / bin_size as f64).floor()"],
    assumptions=COMMON_ASSUME + [HASHMAP_NOTE, BIO_NOTE,
                                 "the counts table is an arbitrary map with <= table_entries distinct keys and arbitrary u32 multiplicities (the table the counter would produce is one of them)",
                                 "the computer is built by the real public constructor CovComputer::new + set_norm; under Kani rayon::current_num_threads is stubbed (-> 1)",
                                 "the oracle's integer quotient floor(c / bin-size) is a fresh variable constrained by q*b <= c < (q+1)*b (division lemma) instead of a 64-bit divider circuit"],
    outside=["build_table (counting + merge + temp-file round trip)", "row order, batching and flush conditions of compute_coverages", "thread-count independence",
             "textual formatting of the row", "records longer than max_len, tables with more entries", "bin sizes above 2^8 in the core instances (2^16 / 2^32 are attempted as optional instances: the solver has to show that floor(fl(c/b)) equals the integer quotient)"],
    instances=c08_instances,
    shims=["hashmap", "bio"],
    roles=[
        ("bin-count entries", "row-length"),
        ("normalised entry", "wrong-fraction"),
        ("entry is not the number", "wrong-bin-count"),
        ("all-zero row", "empty-record-row"),
    ],
)


# ---------------------------------------------------------------------------
# C14
import re as _re


def c14_extract(inj, insts):
    """Extracts the file-layout arithmetic of vectorise_mmap from the CURRENT source text of
    composition/src/oligo.rs as a program slice: the sizing prelude (everything before the file
    is mapped, with the record-count pass replaced by a symbolic `seq_count` and the header text
    by a length model), the `let` statements of the worker set-up, and the statements between the
    row assembly and the row `write_at`.  The slice is compiled verbatim into the harness
    (see harness/composition/verif_c14.rs).  Unknown structure -> InjectError -> the check is
    inconclusive (never a pass, never a violation)."""
    import inject as _inject
    gen = gen_tables(inj, insts)
    p = _os.path.join(inj.ws, "composition/src/oligo.rs")
    src = open(p).read()
    m = _re.search(r"fn vectorise_mmap\(&self\).*?\n    \}\n", src, _re.S)
    if not m:
        raise _inject.InjectError("vectorise_mmap not found in composition/src/oligo.rs")
    body = m.group(0)

    def need(rx, what, text=body, flags=0):
        mm = _re.search(rx, text, flags)
        if not mm:
            raise _inject.InjectError("C14(c): cannot extract %s from vectorise_mmap" % what)
        return mm

    number_size = need(r"const NUMBER_SIZE: usize = ([^;]+);", "NUMBER_SIZE", src).group(1).strip()
    lines = body.split("\n")
    cut = [i for i, l in enumerate(lines) if "mmap_file_for_writing" in l]
    if not cut:
        raise _inject.InjectError("C14(c): cannot find the call that maps the output file in vectorise_mmap")
    prelude = "\n".join(lines[1:cut[0]])
    prelude, n1 = _re.subn(r"\{\s*let format = SeqFormat::get\(&self\.in_path\)\.unwrap\(\);\s*let reader = [^;]+;\s*Sequences::seq_stats\(format, reader\)\.seq_count\s*\}",
                           "{ seq_count }", prelude, flags=_re.S)
    if n1 != 1:
        raise _inject.InjectError("C14(c): cannot find the record-count pass (seq_stats) in the sizing prelude of vectorise_mmap")
    # worker set-up: `let` statements between the thread loop head and the spawn (e.g. `let header_len = header.len();`)
    mm = need(r"for _ in 0\.\.self\.threads \{(.*?)scope\.spawn\(", "the worker set-up", body, _re.S)
    setup = "\n".join(l for l in mm.group(1).split("\n") if l.strip().startswith("let ") and "Arc::clone" not in l)
    # guards of the row-length model: each value must be produced by the std fixed-width float
    # formatting and the row assembled by join(delim) + newline; otherwise the model does not apply
    vfmt = need(r"\.map\(\|val\|\s*(format!\(\"\{:\.\*\}\",\s*NUMBER_SIZE\s*-\s*2,\s*val\))\s*\)", "the value formatting `format!(\"{:.*}\", NUMBER_SIZE - 2, val)` (row-length model not applicable to this code)", body, _re.S).group(1)
    mj = need(r"let kvec_str = (format!\(\"\{\}\\n\",\s*kvec_str\.join\(&self\.delim\)\));", "the row assembly `format!(\"{}\\n\", kvec_str.join(&self.delim))` (row-length model not applicable to this code)", body, _re.S)
    rjoin = mj.group(1)
    rest = body[mj.end():]
    mw = need(r"write_at\(kvec_str\.as_bytes\(\),\s*([^;]+?)\);", "the row write position", rest, _re.S)
    pos = mw.group(1).strip()
    between = rest[:mw.start()]
    stmts = "\n".join(l for l in between.split("\n") if l.strip() and not l.strip().startswith(("unsafe", "mm_slice", "//")) and l.strip() != "}")
    hpos = need(r"write_at\(header\.as_bytes\(\),\s*([^;]+?)\);", "the header write position", body, _re.S).group(1).strip()

    def sub(e):
        e = e.replace("self.get_header().join(&self.delim) + \"\\n\"", "Txt(header_len_model)")
        e = e.replace("String::new()", "Txt(0)")
        e = e.replace("self.", "me.")
        return e

    code = """const NUMBER_SIZE: usize = %s;
    struct Txt(usize);
    impl Txt {
        fn len(&self) -> usize {
            self.0
        }
    }
    struct Dl(usize);
    impl Dl {
        fn len(&self) -> usize {
            self.0
        }
    }
    struct Me {
        kcount: usize,
        ksize: usize,
        delim: Dl,
        header: bool,
        norm: bool,
        threads: usize,
    }
    struct RecN {
        n: usize,
    }
    /// (size of the mapped file, position of the row write of record n, position of the header write)
    #[allow(unused_mut, unused_variables, unused_assignments)]
    fn layout(me: &Me, seq_count: usize, header_len_model: usize, row_len: usize, n: usize) -> (usize, usize, usize) {
        // ---- sizing prelude of vectorise_mmap (verbatim; record-count pass -> seq_count, header text -> length model)
%s
        // ---- worker set-up (verbatim `let` statements)
%s
        // ---- per record: between the row assembly and the row write (verbatim)
        let record = RecN { n };
        let kvec_str = Txt(row_len);
%s
        (estimated_file_size, %s, %s)
    }""" % (number_size, sub(prelude), sub(setup), sub(stmts), sub(pos), sub(hpos))
    inj.extra_evidence["c14c_extracted_slice"] = {
        "NUMBER_SIZE": number_size,
        "sizing_prelude": [" ".join(l.split()) for l in prelude.split("\n") if l.strip() and not l.strip().startswith("//")],
        "worker_setup": [" ".join(l.split()) for l in setup.split("\n") if l.strip()],
        "per_record": [" ".join(l.split()) for l in stmts.split("\n") if l.strip()],
        "row_write_position": pos, "header_write_position": hpos,
        "row_value_formatting (guard of the row-length model)": vfmt, "row_assembly (guard)": rjoin,
    }
    gen["C14C"] = code
    return gen


def c14_instances(tier, seed):
    out = []

    def safety(k, n, core=True, timeout=1500):
        out.append(Inst("c14_oligo_safety_k%d_n%d" % (k, n), "verif_c14", "composition", "c14_oligo_safety::<%d, %d>(&RANK_K%d, COUNT_K%d)" % (k, n, k, k), n + 2,
                        {"clause": "(a) get_unchecked sites of OligoComputer::vectorise_one", "k": k, "max_len": n, "norm": "false (the normalisation loop is safe code)", "tables": [k]},
                        core=core, timeout=timeout, cost=20.0 * n, unwindset=[kmer_loop(n)]))
        out.append(Inst("c14_oligocgr_safety_k%d_n%d" % (k, n), "verif_c14o", "composition", "c14_oligocgr_safety::<%d, %d>(&RANK_K%d, COUNT_K%d)" % (k, n, k, k), MAPU,
                        {"clause": "(a) get_unchecked sites of OligoCgrComputer::seq_to_kmer", "k": k, "max_len": n, "norm": "false (the normalisation loop is safe code)", "tables": [k]},
                        core=core, timeout=timeout, cost=20.0 * n, unwindset=[kmer_loop(n)]))
        out.append(Inst("c14_table_range_k%d" % k, "verif_c14", "composition", "c14_table_range::<%d>(&RANK_K%d, COUNT_K%d)" % (k, k, k), 4,
                        {"clause": "(a) every pos_map entry is an accumulator index", "k": k, "code": "symbolic", "tables": [k]}, core=core, timeout=600, cost=2.0))

    # direct safety runs: k <= 4 (a 16384-entry heap copy of the table at k = 7 exhausted 12 GB);
    # for larger k the argument is compositional: C01 gives min_mer <= fwd < 4^k = pos_map.len() for every k,
    # c14_table_range gives pos_map[x] < kcount for every x (k <= 8)
    ks = [2, 3, 4] if tier == "quick" else [1, 2, 3, 4, 5, 6]
    for k in ks:
        safety(k, k + 2, core=(k <= 4))
    for k in ([5, 6, 7] if tier == "quick" else [7, 8]):
        out.append(Inst("c14_table_range_k%d" % k, "verif_c14", "composition", "c14_table_range::<%d>(&RANK_K%d, COUNT_K%d)" % (k, k, k), 4,
                        {"clause": "(a) every pos_map entry is an accumulator index", "k": k, "code": "symbolic", "tables": [k]}, core=(k <= 7), timeout=900, cost=2.0 * k))
    for (k, n, e, mb) in ([(2, 4, 2, 8), (3, 5, 1, 8)] if tier == "quick" else [(2, 4, 2, 8), (3, 5, 1, 8), (31, 32, 1, 8), (2, 4, 2, 63), (3, 5, 3, 63), (31, 33, 2, 63)]):
        out.append(Inst("c14_cov_safety_k%d_n%d_e%d_s%d" % (k, n, e, mb), "verif_c14v", "coverage",
                        "c14_cov_safety::<%d, %d, %d, %d, %d>()" % (k, n, e, 1 + (n % 4), 2 ** mb), MAPU,
                        {"clause": "(a) get_unchecked_mut(vec_bin) of CovComputer::vectorise_one", "k": k, "max_len": n, "table_entries": e,
                         "multiplicities": "symbolic u32", "bin_size": "symbolic 1..=2^%d" % mb, "bin_count": 1 + (n % 4)},
                        core=(mb <= 8), timeout=1800, cost=40.0 * n, unwindset=[kmer_loop(n)]))
    for (cap, l) in ([(8, 4)] if tier == "quick" else [(8, 4), (24, 8)]):
        out.append(Inst("c14_mmwriter_c%d_l%d" % (cap, l), "verif_c14w", "ktio", "c14_mmwriter::<%d, %d>()" % (cap, l), cap + 2,
                        {"clause": "(b) MMWriter::write_at contract: in-bounds and exact iff pos+len <= capacity", "capacity": cap, "len": "symbolic 1..=%d" % l,
                         "pos": "symbolic"}, core=True, timeout=900, cost=10.0))
        out.append(Inst("c14_mmwriter_tail_c%d_l%d" % (cap, l), "verif_c14w", "ktio", "c14_mmwriter_unchecked_tail::<%d, %d>()" % (cap, l), cap + 2,
                        {"clause": "(b) characterisation, EXPECTED TO FAIL: write_at bounds-checks only the first byte", "capacity": cap}, core=False, timeout=900, cost=10.0,
                        expect_fail=r"dereference failure|memcpy|copy_nonoverlapping|pointer|outside object bounds|src\.len|out of bounds"))
    for k in ([1, 3, 4, 7, 8] if tier == "quick" else range(1, 9)):
        for d in ((0, 1, 2, 4) if tier == "quick" else (0, 1, 2, 3, 4, 7)):
            out.append(Inst("c14c_tiling_k%d_d%d" % (k, d), "verif_c14", "composition", "c14c_tiling::<%d, %d, 64>()" % (k, d), 12,
                            {"clause": "(c) rows of vectorise_mmap tile the mapped file (extracted offset arithmetic)", "k": k, "records": "symbolic 1..=64",
                             "record numbers": "symbolic", "delimiter length": d, "header": "symbolic"}, core=True, timeout=900, cost=5.0 + k))
    for (k, d) in ((8, 4), (1, 0), (7, 7)):
        out.append(Inst("c14c_no_overflow_k%d_d%d" % (k, d), "verif_c14", "composition", "c14c_no_overflow::<%d, %d>()" % (k, d), 12,
                        {"clause": "(c) the extracted offset arithmetic does not overflow and rows start after the header", "k": k, "records": "symbolic 1..=2^32",
                         "record number": "symbolic", "delimiter length": d, "header": "symbolic"}, core=False, timeout=900, cost=5.0 + k))
    return out


PROPS["C14"] = Prop(
    "C14",
    modules=[
        Module("composition", "verif_c14", "harness/composition/verif_c14.rs", parent="oligo"),
        Module("composition", "verif_c14o", "harness/composition/verif_c14o.rs", parent="oligocgr"),
        Module("coverage", "verif_c08", "harness/coverage/verif_c08.rs"),
        Module("coverage", "verif_c14v", "harness/coverage/verif_c14v.rs"),
        Module("ktio", "verif_c14w", "harness/ktio/verif_c14w.rs"),
    ],
    functions=["composition::oligo::OligoComputer::vectorise_one (unsafe get_unchecked / get_unchecked_mut)", "composition::oligocgr::OligoCgrComputer::seq_to_kmer (same)",
               "coverage::CovComputer::vectorise_one (get_unchecked_mut(vec_bin))", "ktio::mmap::MMWriter::{new,write_at}",
               "offset arithmetic of composition::oligo::OligoComputer::vectorise_mmap (per_line_size, file size, start_pos, write positions) - extracted expressions"],
    assumptions=COMMON_ASSUME + [HASHMAP_NOTE, BIO_NOTE,
                                 "(c) row-length model: every value formats to exactly NUMBER_SIZE characters (format!(\"{:.6}\") of a value in [0,1]); validated only by the native end-to-end replay",
                                 "(c) the expressions are extracted by regular expressions from the current oligo.rs; if they cannot be located the check is inconclusive",
                                 "(a) pos_map is the table of a native run of the real kmer_pos_maps(k)"],
    outside=["the partition index get_unchecked(min_mer % n_parts) in counter::count_chunk (inline in a rayon closure, n_parts comes from reading the input file)",
             "schedule-dependence of the mapped writes (threads)", "k = 8 safety instances in the quick tier", "delimiter lengths other than 0,1,2,3,4,7", "(c) exact tiling for more than 64 records (only overflow-freedom is decided up to 2^32 records; the offsets are affine in the record number)"],
    instances=c14_instances,
    shims=["hashmap", "bio"],
    generate=c14_extract,
    roles=[
        ("(end-to-end)", "mmap-file-not-tiled-end-to-end"),
        ("written over the header", "mmap-row-outside-file"),
        ("outside the mapped file", "mmap-row-outside-file"),
        ("overlap or are out of order", "mmap-rows-overlap"),
        ("not adjacent", "mmap-rows-not-adjacent"),
        ("first row does not start", "mmap-rows-not-adjacent"),
        ("file size is not header", "mmap-file-size"),
        ("header is not written", "mmap-header-position"),
        ("4^k entries", "pos-map-size"),
        ("index outside the accumulator", "pos-map-entry-out-of-range"),
        ("kcount entries", "accumulator-size"),
        ("bin-count entries", "accumulator-size"),
        ("does not store the given bytes", "mmwriter-contract"),
        ("modifies bytes outside", "mmwriter-contract"),
    ],
)


# ---------------------------------------------------------------------------
# C13
# pyo3's PyValueError::new_err makes kani-compiler 0.68 crash (ICE in intrinsics.rs); it is stubbed in the CGR harnesses:
# only is_err() of the PyResult is inspected and the value is never dropped
CGR_STUB = ["kani::stub(pyo3::exceptions::PyValueError::new_err, crate::cgr::verif_c13c::new_err_stub)"]


def c13_instances(tier, seed):
    out = []

    def shape(n, mask):
        return "".join("2" if (mask >> i) & 1 else "1" for i in range(n)) or "empty"

    def oligo(k, n, mask, core=True):
        nb = n + bin(mask).count("1")
        out.append(Inst("c13_oligo_k%d_s%s" % (k, shape(n, mask)), "verif_c13o", "pybindings",
                        "c13_oligo_ascii::<%d, %d, %d>(&RANK_K%d, &INV_K%d, COUNT_K%d)" % (k, n, mask, k, k, k), MAPU,
                        {"clause": "oligo vector: binding vs core, bit-equal", "k": k, "chars": n, "shape (bytes per char)": shape(n, mask),
                         "char values": "symbolic: ASCII 0x04..=0x7F / two-byte U+0080..=U+07FF", "norm": "symbolic", "column": "symbolic", "tables": [k]},
                        core=core, timeout=1800, cost=60.0 * nb, unwindset=[kmer_loop(nb)], mem=(6 if nb >= 5 else 3),
                        require_opt=(["opt: string with a two-byte character, non-zero entry"] if mask else [])))

    def cgr(n, mask, core=True):
        nb = n + bin(mask).count("1")
        out.append(Inst("c13_cgr_s%s" % shape(n, mask), "verif_c13c", "pybindings", "c13_cgr::<%d, %d>()" % (n, mask), MAPU,
                        {"clause": "CGR: binding vs core, same points, rejects the same inputs", "chars": n, "shape (bytes per char)": shape(n, mask),
                         "char values": "symbolic: ASCII 0x00..=0x7F / two-byte U+0080..=U+07FF", "square": "symbolic 1..=2^20"},
                        core=core, timeout=2400, cost=80.0 * nb * nb + 1, unwindset=[cgr_loop(nb), pycgr_loop(nb)], attrs=CGR_STUB,
                        require_opt=(["opt: rejected record"] if n >= 1 else []) + (["opt: full-length accepted record"] if mask == 0 else [])))

    if tier == "quick":
        oligo(1, 3, 0)
        oligo(2, 3, 0)
        oligo(1, 3, 0b010)
        cgr(0, 0)
        cgr(2, 0)
        cgr(2, 0b10)
        cgr(2, 0b01)
    else:
        for k in (1, 2, 3):
            for n in range(k + 1, 5):
                oligo(k, n, 0, core=(k <= 2))
            for (n, m) in ((3, 0b001), (3, 0b010), (3, 0b100), (4, 0b0100), (4, 0b1000), (4, 0b0001)):
                if n - bin(m).count("1") >= k and not (k >= 2 and n == 3):
                    oligo(k, n, m, core=(k <= 2))
        for n in range(0, 4):
            cgr(n, 0, core=(n <= 3))
        for (n, m) in ((1, 1), (2, 1), (2, 2), (2, 3), (3, 1), (3, 2), (3, 4)):
            cgr(n, m, core=(n <= 2))
    for k in ([2] if tier == "quick" else [1, 2, 3]):
        for which in ((2,) if tier == "quick" else (0, 1, 2, 3)):
            out.append(Inst("c13_oligo_unicode_k%d_s%d" % (k, which), "verif_c13o", "pybindings",
                            "c13_oligo_unicode::<%d, %d>(&RANK_K%d, &INV_K%d, COUNT_K%d)" % (k, which, k, k, k), MAPU,
                            {"clause": "oligo vector on a fixed string with a 2/3/4-byte character (acts as ambiguous bytes)", "k": k,
                             "string": ["AC\\u00e9GT", "\\u20acACGTA", "AC\\U00010348CGT", "ACGT\\u00e9"][which], "norm": "symbolic", "tables": [k]},
                            core=False, timeout=1800, cost=100.0, unwindset=[kmer_loop(9)]))
        out.append(Inst("c13_header_k%d" % k, "verif_c13o", "pybindings", "c13_header::<%d>(&RANK_K%d, &INV_K%d, COUNT_K%d)" % (k, k, k, k),
                        MAPU,
                        {"clause": "binding header equals core header", "k": k, "columns": "all (concrete walk)", "tables": [k]}, core=(k <= 2), timeout=1800, cost=100.0))
    for (k, n) in ([(2, 6), (31, 12)] if tier == "quick" else [(1, 8), (2, 8), (31, 40)]):
        out.append(Inst("c13_kmer_wiring_k%d_n%d" % (k, n), "verif_c13k", "pybindings", "c13_kmer_wiring::<%d, %d>()" % (k, n), n + 2,
                        {"clause": "k-mer iterator wiring: the wrapped core iterator walks the object's own copy of the given bytes (address, length, content), k stored", "k": k, "len": n},
                        core=True, timeout=900, cost=10.0))
    for (w, m, n) in ([(5, 3, 6), (31, 28, 8)] if tier == "quick" else [(5, 3, 8), (31, 28, 12), (8, 5, 10)]):
        out.append(Inst("c13_min_wiring_w%d_m%d_n%d" % (w, m, n), "verif_c13m", "pybindings", "c13_min_wiring::<%d, %d, %d>()" % (w, m, n), n + 2,
                        {"clause": "minimiser iterator wiring: wrapped core iterator walks the object's own copy of the given bytes; w, m passed through; first item equal", "w": w, "m": m, "len": n},
                        core=True, timeout=900, cost=20.0, unwindset=[("kmer/src/minimiser.rs", BUFF_LOOP, w - m + 3)], mem=(6 if n > 8 else 3)))
    for (k, n) in ([(2, 5)] if tier == "quick" else [(1, 5), (2, 6), (4, 8), (31, 33)]):
        out.append(Inst("c13_kmer_iter_k%d_n%d" % (k, n), "verif_c13k", "pybindings", "c13_kmer_iter::<%d, %d, %d>()" % (k, n, n - k + 2), n + 2,
                        {"clause": "k-mer iterator: binding vs core after the String is consumed and the object moved", "k": k, "len": n},
                        core=(k <= 4), timeout=1800, cost=30.0 * n, unwindset=[kmer_loop(n)]))
    for (w, m, n) in ([(2, 1, 2)] if tier == "quick" else [(2, 1, 2), (2, 1, 3), (3, 2, 4)]):
        out.append(Inst("c13_min_iter_w%d_m%d_l%d" % (w, m, n), "verif_c13m", "pybindings", "c13_min_iter::<%d, %d, %d, %d>()" % (w, m, n, n - w + 3), max(n + 2, w + 2),
                        {"clause": "minimiser iterator: binding vs core after the String is consumed and the object moved", "w": w, "m": m, "len": n},
                        core=(n <= 2), timeout=2400, cost=300.0,
                        unwindset=[("kmer/src/minimiser.rs", BUFF_LOOP, w - m + 3)], mem=(3 if n <= 2 else 10)))
    return out


PROPS["C13"] = Prop(
    "C13",
    modules=[
        Module("composition", "verif_c04", "harness/composition/verif_c04.rs", parent="oligo"),
        Module("composition", "verif_c11", "harness/composition/verif_c11.rs", parent="cgr"),
        Module("pybindings", "verif_c13o", "harness/pybindings/verif_c13o.rs", parent="oligo"),
        Module("pybindings", "verif_c13c", "harness/pybindings/verif_c13c.rs", parent="cgr"),
        Module("kmer", "verif_c13a", "harness/kmer/verif_c13a.rs", parent="kmer"),
        Module("kmer", "verif_c13b", "harness/kmer/verif_c13b.rs", parent="minimiser"),
        Module("pybindings", "verif_c13k", "harness/pybindings/verif_c13k.rs", parent="kmer"),
        Module("pybindings", "verif_c13m", "harness/pybindings/verif_c13m.rs", parent="min"),
    ],
    functions=["pybindings::oligo::OligoComputer::{vectorise_one,get_header} (#[pymethods] bodies)", "composition::oligo::OligoComputer::vectorise_one",
               "pybindings::cgr::CgrComputer::{new,vectorise_one}", "composition::cgr::CgrComputer::vectorise_one",
               "pybindings::kmer::KmerGenerator::new + inner generator", "pybindings::min::MinimiserGenerator::new + inner generator"],
    assumptions=COMMON_ASSUME + [HASHMAP_NOTE, BIO_NOTE,
                                 "std VecDeque replaced by the ring model in Kani builds (minimiser iterator instances)",
                                 "strings are up to N symbolic characters, each ASCII or a two-byte character U+0080..=U+07FF encoded as valid UTF-8 by construction (String::from_utf8_unchecked), plus four fixed strings with 2/3/4-byte characters",
                                 "only is_ok()/is_err() of PyResult is inspected; the PyErr object is never materialised or dropped"],
    outside=["everything that needs a live interpreter: ValueError type, tuple conversion, __next__ through PyRefMut, GIL", "vectorise_batch (rayon pool)",
             "module registration in pip/ and conda/", "symbolic three- and four-byte characters"],
    instances=c13_instances,
    shims=["hashmap", "bio", "vecdeque"],
    generate=gen_tables,
    roles=[
        ("differ in length", "length-differs"),
        ("oligo vector differs", "oligo-differs"),
        ("header length", "header-differs"),
        ("header differs", "header-differs"),
        ("disagree on accepting", "cgr-acceptance-differs"),
        ("non-ASCII character is not treated", "cgr-acceptance-differs"),
        ("CGR point differs", "cgr-point-differs"),
        ("k-mer iterator yields", "kmer-iter-differs"),
        ("minimiser iterator yields", "min-iter-differs"),
        ("does not walk the bytes", "iterator-wiring"),
        ("owns a string of different length", "iterator-wiring"),
        ("owns different bytes", "iterator-wiring"),
        ("stores a different", "iterator-wiring"),
    ],
)


# ---------------------------------------------------------------------------
# C06 (narrow)
def c06_instances(tier, seed):
    out = []
    # (records, max bases, length offset): offset 0 puts an empty record first (FASTA only), 1 makes every record non-empty (both formats)
    combos = [(2, 2, 1), (3, 2, 0), (3, 1, 1)] if tier == "quick" else [(2, 2, 1), (3, 2, 0), (3, 1, 1), (3, 3, 1), (4, 2, 0), (4, 1, 1)]
    for (r, l, first) in combos:
        lens = [(i * 2 + first) % (l + 1) for i in range(r)]
        out.append(Inst("c06_numbering_r%d_l%d_f%d" % (r, l, first), "verif_c06", "ktio", "c06_numbering::<%d, %d, %d>()" % (r, l, first), max(r, l, 8) + 2,
                        {"clause": "numbering / copy-out / statistics of ktio::seq over a parsed-record list", "records": r,
                         "bases per record": lens, "ids": "symbolic 2 printable ASCII bytes", "bases": "symbolic ASCII letters",
                         "format": "symbolic FASTA/FASTQ" if 0 not in lens else "FASTA (bio rejects FASTQ records without bases)"},
                        core=(r <= 3), timeout=2400, cost=100.0 * r * (l + 1), require_opt=(["opt: FASTQ branch"] if 0 not in lens else [])))
    return out


PROPS["C06"] = Prop(
    "C06",
    modules=[Module("ktio", "verif_c06", "harness/ktio/verif_c06.rs")],
    functions=["ktio::seq::Sequences::new", "<ktio::seq::Sequences as Iterator>::next", "ktio::seq::Sequences::seq_stats"],
    assumptions=[COMMON_ASSUME[0], COMMON_ASSUME[1],
                 "the `bio` FASTA/FASTQ readers are replaced in Kani builds by a stand-in that hands out a harness-controlled list of (id, bases) records; "
                 "NO parsing (line wrapping, CRLF, final newline, id = first word), NO gzip and NO suffix inference is covered",
                 "native replay serialises the solver's records as single-line FASTA/FASTQ and reads them through the real bio parser"],
    outside=["FASTA/FASTQ parsing (bio crate; does not compile under Kani)", "gzip incl. multi-member files (flate2/miniz_oxide over a file)",
             "SeqFormat::get suffix inference (core's TwoWaySearcher did not leave symbolic execution in 400 s)", "more than 4 records, records longer than 3 bases"],
    instances=c06_instances,
    shims=["bio"],
    roles=[
        ("iteration ends early", "record-missing"),
        ("numbered 0,1,2", "numbering"),
        ("id is not copied", "id-copy"),
        ("bases are not copied", "bases-copy"),
        ("more than once", "record-duplicated"),
        ("record count differs", "stats-count"),
        ("total bases differ", "stats-bases"),
    ],
)


# C18 inductive step (clause 1): extra module pair + instances
def c18_step_instances(tier):
    out = []
    pairs = [(2, 1, 6), (3, 2, 6), (3, 3, 6), (4, 2, 7)] if tier == "quick" else [(2, 1, 8), (2, 2, 8), (3, 2, 8), (3, 3, 8), (4, 2, 9), (4, 1, 8), (5, 3, 9), (8, 5, 10), (31, 31, 33), (31, 28, 33)]
    for (w, m, n) in pairs:
        us = [("kmer/src/minimiser.rs", BUFF_LOOP, w - m + 3), ("kmer/src/kmer_minimisers.rs", BUFF_LOOP, w - m + 3)]
        out.append(Inst("c18_step_w%d_m%d_n%d" % (w, m, n), "verif_c18k", "kmer", "c18_step::<%d, %d, %d>()" % (w, m, n), max(n + 2, 6),
                        {"clause": "(1) ONE INDUCTIVE STEP from any agreeing pair of states: same run, states agree again, invariant re-established",
                         "w": w, "m": m, "max_len": n, "len": "symbolic 0..=%d" % n, "state": "symbolic (shared fields equal, validity invariant assumed)",
                         "histories": "any number of next() calls (by induction with c18_base)"},
                        core=(w <= 4), timeout=2400, cost=80.0 * n * (w - m + 2), unwindset=us))
        out.append(Inst("c18_base_w%d_m%d_n%d" % (w, m, n), "verif_c18k", "kmer", "c18_base::<%d, %d, %d>()" % (w, m, n), max(n + 2, 6),
                        {"clause": "(1) base case: new() gives agreeing states that satisfy the invariant", "w": w, "m": m, "max_len": n},
                        core=(w <= 4), timeout=600, cost=5.0))
    return out


_c18_whole = c18_instances


def c18_instances(tier, seed):  # noqa: F811
    return _c18_whole(tier, seed) + c18_step_instances(tier)


PROPS["C18"].modules += [
    Module("kmer", "verif_c18s", "harness/kmer/verif_c18s.rs", parent="minimiser"),
    Module("kmer", "verif_c18k", "harness/kmer/verif_c18k.rs", parent="kmer_minimisers"),
]
PROPS["C18"]._instances = c18_instances
PROPS["C18"].roles += [
    ("no longer agree on their shared state", "state-diverges"),
    ("freshly constructed iterators do not agree", "state-diverges"),
    ("validity invariant", "invariant-not-inductive"),
]
PROPS["C18"].functions += ["(inductive step) one next() of each iterator from an arbitrary agreeing pair of states; private fields set/read by injected child modules"]
PROPS["C18"].assumptions += [
    "inductive-step instances: the pre-state is ANY state satisfying the validity invariant of harness/kmer/verif_c18k.rs (inv), which the same instances prove to be inductive (base case c18_base_*, step c18_step_*); the ring model holds <= 8 buffered m-mers, the harness state array 4 (w-m+1 <= 4)",
]

PROPS["C03"].pre_modules = [Module("composition", "verif_dumph", "harness/composition/verif_dumph.rs", parent="oligo"),
                             Module("pybindings", "verif_dumpp", "harness/pybindings/verif_dumpp.rs", parent="oligo")]


# ---------------------------------------------------------------------------
# C16 (kernel of the `min` subcommands)
def c16_extract(inj, insts):
    """Extracts, for bin_sequences and seq_to_min, the expression that builds the per-record
    MinimiserGenerator (`let mgen = if wsize == 0 { A } else { B };`) from the CURRENT
    misc/src/minimisers.rs."""
    import inject as _inject
    src = open(_os.path.join(inj.ws, "misc/src/minimisers.rs")).read()
    sites = _re.findall(r"let mgen = (if wsize == 0 \{.*?\} else \{.*?\});", src, _re.S)
    if len(sites) != 2:
        raise _inject.InjectError("C16: expected 2 `let mgen = if wsize == 0 {..} else {..};` call sites in misc/src/minimisers.rs, found %d" % len(sites))
    code = []
    for n, e in enumerate(sites):
        code.append("pub fn site%d<'a>(record: &Rec<'a>, wsize: usize, msize: usize) -> MinimiserGenerator<'a> {\n    %s\n}" % (n, e.replace("&record.seq", "record.seq")))
    inj.extra_evidence["c16_extracted_call_sites"] = [" ".join(e.split()) for e in sites]
    return {"C16SITES": "\n".join(code)}


def c16_instances(tier, seed):
    out = []
    # (w, m, lengths): w = 0 is the whole-record window of `-w 0`
    combos = [(0, 1, range(0, 4)), (0, 2, range(0, 5)), (0, 3, range(0, 6)), (3, 2, (0, 1, 2, 3, 4))]
    if tier == "thorough":
        combos += [(3, 2, (5, 6)), (0, 7, (0, 3, 6, 7, 8, 9)), (0, 4, range(0, 8)), (2, 1, range(0, 5)), (4, 2, range(0, 7)), (8, 7, (0, 6, 7, 8, 9, 10))]
    for (w, m, lens) in combos:
        for n in lens:
            for site in (0, 1):
                cap = max((n - m + 1) if w == 0 else (w - m + 1), 1)
                weff = max(n, m) if w == 0 else w
                calls = (n - weff + 2) if n >= weff else 1
                out.append(Inst("c16_min_w%d_m%d_l%d_site%d" % (w, m, n, site), "verif_c16", "misc", "c16_min_kernel::<%d, %d, %d, %d, %d>()" % (w, m, n, site, calls), n + 3,
                                {"clause": "per-record minimiser kernel of %s ends cleanly (no panic, no placeholder)" % ("bin_sequences" if site == 0 else "seq_to_min"),
                                 "w": "0 (whole record)" if w == 0 else w, "m": m, "len": n, "bytes": "symbolic 0x04..=0xFF"},
                                core=(n <= 5 and m <= 3), timeout=2400, cost=10.0 * (n + 1) * cap,
                                unwindset=[("kmer/src/minimiser.rs", BUFF_LOOP, min(cap, 8) + 2)]))
    return out


PROPS["C16"] = Prop(
    "C16",
    modules=[Module("misc", "verif_c16", "harness/misc/verif_c16.rs", parent="minimisers")],
    functions=["the per-record generator construction of misc::minimisers::{bin_sequences, seq_to_min} (extracted call-site expressions)",
               "kmer::minimiser::MinimiserGenerator::{new,next}"],
    assumptions=COMMON_ASSUME + [
        "std VecDeque replaced by the ring model (capacity 8) in Kani builds",
        "the two call-site expressions are extracted by a regular expression from the current misc/src/minimisers.rs; if they cannot be located the check is inconclusive",
        "w is 0 or greater than m (what the CLI admits)",
    ],
    outside=["everything else of C16: empty input files, exit status, the other subcommands' I/O paths (their per-record kernels are exercised on empty / short / all-ambiguous "
             "records by C04, C08, C11, C12, C14 with Kani's panic checks on)", "rayon/scc/file output of the two subcommands", "records longer than the instance lengths"],
    instances=c16_instances,
    shims=["vecdeque", "bio"],
    generate=c16_extract,
    roles=[
        ("placeholder value", "placeholder-emitted"),
        ("does not lie inside the record", "run-outside-record"),
        ("does not end", "iterator-does-not-end"),
    ],
)


# C14 (d): partition index of the counter (extracted expressions)
def c14d_extract(inj):
    import inject as _inject
    src = open(_os.path.join(inj.ws, "counter/src/lib.rs")).read()

    def need(rx, what, flags=0):
        m = _re.search(rx, src, flags)
        if not m:
            raise _inject.InjectError("C14(d): cannot extract %s from counter/src/lib.rs" % what)
        return m.group(1).strip()

    tlen = need(r"let counts_table: Vec<SccMap<Kmer, u32>> = vec!\[SccMap::new\(\); ([^\]]+)\];", "the partition table length")
    idx = need(r"\.get_unchecked\(((?:[^()]|\([^()]*\))+)\)\s*\n?\s*\.entry\(min_mer\)", "the partition index", _re.S)
    dsz = need(r"let data_size_gb = ([^;]+);", "data_size_gb")
    npt = need(r"let n_parts = (max\(.*?\));\s*\n\s*self\.n_parts = n_parts;", "the n_parts computation", _re.S)
    code = """fn table_len_of(me: &Me) -> usize {
    %s
}
fn index_of(me: &Me, min_mer: u64) -> usize {
    %s
}
fn n_parts_of(me: &Me, stats: &Stats) -> u64 {
    let data_size_gb = %s;
    %s
}""" % (tlen.replace("self.", "me."), idx.replace("self.", "me."), dsz.replace("self.", "me."), npt.replace("self.", "me."))
    inj.extra_evidence["c14d_extracted_expressions"] = {"table_len": tlen, "index": " ".join(idx.split()), "data_size_gb": dsz, "n_parts": " ".join(npt.split())}
    return code


_c14_extract_c = c14_extract


def c14_extract(inj, insts):  # noqa: F811
    gen = _c14_extract_c(inj, insts)
    gen["C14D"] = c14d_extract(inj)
    return gen


_c14_instances_abc = c14_instances


def c14_instances(tier, seed):  # noqa: F811
    out = _c14_instances_abc(tier, seed)
    out.append(Inst("c14d_partition_index", "verif_c14d", "counter", "c14d_body()", 4,
                    {"clause": "(d) partition index of the k-mer counter < partition table length (extracted expressions: table length, index, n_parts of init())",
                     "k-mer": "symbolic u64", "threads": "symbolic 1..=2^16", "debug": "symbolic", "input bases": "symbolic 0..=2^50",
                     "memory ceiling": "symbolic n/16 GB, n in 1..=2^24"}, core=True, timeout=900, cost=20.0))
    return out


PROPS["C14"].modules.append(Module("counter", "verif_c14d", "harness/counter/verif_c14d.rs"))
PROPS["C14"].generate = c14_extract
PROPS["C14"]._instances = c14_instances
PROPS["C14"].roles += [("zero partitions", "counter-zero-partitions"), ("outside the partition table", "counter-partition-index")]
PROPS["C14"].functions.append("counter::CountComputer: partition table length, partition index and init()'s n_parts computation - extracted expressions")
PROPS["C14"].outside = [o for o in PROPS["C14"].outside if not o.startswith("the partition index")] + [
    "(d) is decided on expressions extracted from counter/src/lib.rs, not on count_chunk itself (rayon workers, scc map, file I/O); thread count 0 is excluded (no worker, the index is never evaluated)"]


# C09 inductive step
def c09_step_instances(tier):
    out = []
    pairs = [(2, 1, 6), (3, 2, 6), (3, 3, 6)] if tier == "quick" else [(1, 1, 6), (2, 1, 8), (2, 2, 8), (3, 2, 8), (3, 3, 8), (4, 2, 7), (4, 2, 9), (4, 1, 8), (5, 3, 9), (8, 5, 10), (31, 31, 33), (31, 28, 33)]
    for (w, m, n) in pairs:
        us = [("kmer/src/minimiser.rs", BUFF_LOOP, w - m + 3)]
        out.append(Inst("c09_step_w%d_m%d_n%d" % (w, m, n), "verif_c09i", "kmer", "c09_step::<%d, %d, %d>()" % (w, m, n), max(n + 3, 7, m + 2),
                        {"clause": "ONE INDUCTIVE STEP from any state satisfying the functional invariant: the item returned is the oracle's next maximal run, invariant re-established",
                         "w": w, "m": m, "max_len": n, "len": "symbolic 0..=%d" % n, "state": "symbolic (functional invariant assumed)",
                         "histories": "any number of next() calls (by induction with c09_base)"},
                        core=(w <= 3 and n <= 6), timeout=3000, cost=200.0 * n * (w - m + 2), unwindset=us))
        out.append(Inst("c09_base_w%d_m%d_n%d" % (w, m, n), "verif_c09i", "kmer", "c09_base::<%d, %d, %d>()" % (w, m, n), max(n + 3, 7, m + 2),
                        {"clause": "base case: new() satisfies the functional invariant", "w": w, "m": m, "max_len": n},
                        core=(w <= 3 and n <= 6), timeout=900, cost=5.0))
    return out


_c09_whole = c09_instances


def c09_instances(tier, seed):  # noqa: F811
    return _c09_whole(tier, seed) + c09_step_instances(tier)


PROPS["C09"].modules += [
    Module("kmer", "verif_c18s", "harness/kmer/verif_c18s.rs", parent="minimiser"),
    Module("kmer", "verif_c09i", "harness/kmer/verif_c09i.rs", parent="minimiser"),
]
PROPS["C09"]._instances = c09_instances
PROPS["C09"].roles += [
    ("(from new) the iterator's runs differ", "runs-differ-from-new"),
    ("state invariant", "invariant-not-inductive"),
]
PROPS["C09"].functions += ["(inductive step) one next() from an arbitrary state satisfying the functional invariant; private fields set/read by an injected child module"]
PROPS["C09"].assumptions += [
    "inductive-step instances: the pre-state is ANY state satisfying the functional invariant of harness/kmer/verif_c09i.rs (inv), which the same instances prove inductive (base case c09_base_*, step c09_step_*); w-m+1 <= 4",
]


# C18 clause (2) inductive step
def c18_kmers_step_instances(tier):
    out = []
    pairs = [(2, 1, 6), (3, 2, 6), (3, 3, 6)] if tier == "quick" else [(1, 1, 6), (2, 1, 8), (2, 2, 8), (3, 2, 8), (3, 3, 8), (4, 2, 8), (5, 3, 9), (31, 31, 33), (31, 28, 33)]
    for (w, m, n) in pairs:
        us = [("kmer/src/kmer_minimisers.rs", BUFF_LOOP, w - m + 3)]
        out.append(Inst("c18_kmers_step_w%d_m%d_n%d" % (w, m, n), "verif_c18k", "kmer", "c18_kmers_step::<%d, %d, %d>()" % (w, m, n), max(n + 3, 7, w + 2),
                        {"clause": "(2) ONE INDUCTIVE STEP: the k-mer list attached by one call = canonical w-mers of the valid windows ending at the positions this call consumed; invariants re-established",
                         "w": w, "m": m, "max_len": n, "len": "symbolic 0..=%d" % n, "state": "symbolic (functional invariant of C09 + k-mer fields assumed)",
                         "histories": "any number of next() calls (positions consumed by consecutive calls tile the sequence)"},
                        core=(w <= 3 and n <= 6), timeout=3000, cost=250.0 * n * (w - m + 2), unwindset=us))
        out.append(Inst("c18_kmers_base_w%d_m%d_n%d" % (w, m, n), "verif_c18k", "kmer", "c18_kmers_base::<%d, %d, %d>()" % (w, m, n), max(n + 3, 7, w + 2),
                        {"clause": "(2) base case: new() satisfies both invariants", "w": w, "m": m, "max_len": n}, core=(w <= 3 and n <= 6), timeout=900, cost=5.0))
    return out


_c18_prev = c18_instances


def c18_instances(tier, seed):  # noqa: F811
    return _c18_prev(tier, seed) + c18_kmers_step_instances(tier)


PROPS["C18"].modules.insert(len(PROPS["C18"].modules) - 1, Module("kmer", "verif_c09i", "harness/kmer/verif_c09i.rs", parent="minimiser"))
PROPS["C18"]._instances = c18_instances
PROPS["C18"].roles += [
    ("(from new) attached k-mers", "wmer-wrong"),
    ("(from new) a valid window", "wmer-lost"),
    ("moves backwards or past the end", "position-not-monotone"),
    ("ends before the end of the sequence", "ends-early"),
    ("field invariant", "invariant-not-inductive"),
]


# C01 inductive step
def c01_step_instances(tier):
    out = []
    pairs = [(1, 8), (2, 8), (4, 10), (16, 20), (31, 34)] if tier == "quick" else [(1, 12), (2, 12), (3, 12), (4, 14), (5, 14), (8, 16), (15, 20), (16, 20), (30, 36), (31, 40)]
    for (k, n) in pairs:
        out.append(Inst("c01_step_k%d_n%d" % (k, n), "verif_c01i", "kmer", "c01_step::<%d, %d>()" % (k, n), max(n + 3, k + 3),
                        {"clause": "ONE INDUCTIVE STEP from any state satisfying the functional invariant: the item returned is the next valid window (also second = rev_comp(first)), invariant re-established",
                         "k": k, "max_len": n, "len": "symbolic 0..=%d" % n, "state": "symbolic (functional invariant assumed)",
                         "histories": "any number of next() calls (by induction with c01_base)"}, core=True, timeout=2400, cost=20.0 * n))
        out.append(Inst("c01_base_k%d_n%d" % (k, n), "verif_c01i", "kmer", "c01_base::<%d, %d>()" % (k, n), max(n + 3, k + 3),
                        {"clause": "base case: new() satisfies the functional invariant", "k": k, "max_len": n}, core=True, timeout=900, cost=2.0))
    return out


_c01_whole = c01_instances


def c01_instances(tier, seed):  # noqa: F811
    return _c01_whole(tier, seed) + c01_step_instances(tier)


PROPS["C01"].modules.append(Module("kmer", "verif_c01i", "harness/kmer/verif_c01i.rs", parent="kmer"))
PROPS["C01"]._instances = c01_instances
PROPS["C01"].roles += [
    ("(from new) the iterator's items differ", "items-differ-from-new"),
    ("second component is not rev_comp", "second-not-revcomp"),
    ("state invariant", "invariant-not-inductive"),
]
PROPS["C01"].functions += ["(inductive step) one next() from an arbitrary state satisfying the functional invariant; private fields set by an injected child module"]
PROPS["C01"].assumptions += [
    "inductive-step instances: the pre-state is ANY state satisfying the functional invariant of harness/kmer/verif_c01i.rs (inv), which the same instances prove inductive (base case c01_base_*, step c01_step_*)",
]

# thorough tiers whose additional instances were not all validated to finish inside the memory/time caps
# when two checks share the machine: only the quick tier's core set decides their exit code
for _p in ("C08", "C09", "C13", "C12", "C04", "C18"):
    PROPS[_p].thorough_core = False
