#!/bin/bash
# verify_seed.sh <dir-with-patch.diff-and-demo.sh> <label>
# Confirms a seeded change independently: patch applies, the unedited suite still
# passes with it, the demonstration fails with it and passes without it.
set -u
SRC=$1; L=$2
WT=/tmp/wtv/$L
export CARGO_NET_OFFLINE=true
rm -rf $WT; git -C /repo worktree prune
git -C /repo worktree add -q --detach $WT HEAD || exit 9
cd $WT
echo "== $L: apply"; git apply --check $SRC/patch.diff && git apply $SRC/patch.diff || { echo "APPLY-FAILED"; exit 9; }
git diff --stat | tail -3
echo "== $L: suite with change"
cargo test --workspace --no-fail-fast --offline 2>&1 | grep -E "^test result|FAILED|panicked" | awk '/test result/ {p+=$4; f+=$6} {print} END {print "SUITE passed=" p " failed=" f}' | tail -4
git status --short | grep -v "^ M" | head -5
git stash -q -u 2>/dev/null; git stash drop -q 2>/dev/null; git checkout -q -- . ; git clean -fdq -e target
git apply $SRC/patch.diff
echo "== $L: demo with change"
bash $SRC/demo.sh $WT > /tmp/wtv/$L.demo_with.log 2>&1; echo "DEMO_WITH rc=$?"
git checkout -q -- . ; git clean -fdq -e target
echo "== $L: demo without change"
bash $SRC/demo.sh $WT > /tmp/wtv/$L.demo_without.log 2>&1; echo "DEMO_WITHOUT rc=$?"
cd /; git -C /repo worktree remove --force $WT; git -C /repo worktree prune
