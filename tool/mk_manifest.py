#!/usr/bin/env python3
"""Regenerates /verif/MANIFEST.json from the property registry (tool/props.py)
and the texts in tool/manifest_texts.py, so the two cannot drift."""
import json
import os
import sys

HERE = os.path.dirname(os.path.abspath(__file__))
VERIF = os.path.dirname(HERE)
sys.path.insert(0, HERE)
import props  # noqa: E402
import manifest_texts as T  # noqa: E402

checks = []
for pid in sorted(props.PROPS):
    if pid not in T.CHECKS:
        continue
    t = T.CHECKS[pid]
    checks.append(
        {
            "property_id": pid,
            "quick_cmd": "./check %s --tier quick" % pid,
            "thorough_cmd": "./check %s --tier thorough" % pid,
            "evidence_file": "/verif/evidence/%s.json" % pid,
            "replay_cmd_template": "./check %s --replay {path}" % pid,
            "engine": "kani-cbmc",
            "level_claimed": {"category": "model_checking", "text": t["text"], "design_ref": t["design_ref"]},
            "level_note": t["note"],
            "technique": t["technique"],
        }
    )

na = [{"property_id": p, "reason": r} for p, r in sorted(T.NOT_APPLICABLE.items()) if p not in T.CHECKS]

manifest = {
    "version": 1,
    "setup_cmd": "./setup.sh",
    "hooks": {
        "guard": "none in /repo: harnesses are injected into a scratch snapshot of /repo's working tree and guarded there by cfg(kani) (set by cargo-kani) and cfg(verif_replay) (set only by /verif's native replay builds)",
        "enable": "cargo kani -p <crate> (cfg(kani)) on the scratch snapshot made by ./check; native replays: RUSTFLAGS='--cfg verif_replay'",
        "baseline_off_cmd": "cd /repo && cargo test --workspace --no-fail-fast --offline",
        "source_commits": [],
        "add_only": True,
    },
    "engines": [
        {
            "name": "kani-cbmc",
            "path": "/verif/tool/run.py",
            "serves_properties": sorted(p for p in props.PROPS if p in T.CHECKS),
            "kind_free_text": "bounded symbolic execution of the compiled Rust code (Kani 0.68 -> CBMC 6.11 -> CaDiCaL); counterexamples replayed natively against the real code before being reported",
        }
    ],
    "checks": checks,
    "not_applicable": na,
    "notes": T.NOTES,
}
json.dump(manifest, open(os.path.join(VERIF, "MANIFEST.json"), "w"), indent=1)
print("MANIFEST.json: %d checks, %d not_applicable" % (len(checks), len(na)))
