#!/bin/bash
# run_seeds.sh [tier] [seed-name ...]: apply each seeded change to /repo, run the check of the property
# it breaks, undo it straight afterwards.  Sequential (the checks read /repo's working tree).
cd /verif
TIER=${1:-quick}; shift
SEEDS="$@"; [ -z "$SEEDS" ] && SEEDS=$(ls seeded)
mkdir -p /tmp/runs
for s in $SEEDS; do
  prop=$(python3 -c "import json;print(json.load(open('seeded/$s/meta.json'))['breaks_property'])")
  git -C /repo checkout -q -- . ; 
  if ! git -C /repo apply /verif/seeded/$s/patch.diff; then echo "$s: APPLY FAILED"; continue; fi
  t0=$(date +%s)
  [ -n "${SEED_PROP:-}" ] && prop=$SEED_PROP
  ls replays > /tmp/runs/.replays.before
  timeout 5400 ./check $prop --tier $TIER --no-evidence > /tmp/runs/seed-$s-$prop.log 2>&1; rc=$?
  git -C /repo checkout -q -- .
  # replays written for a seeded change are not findings about /repo: keep them out of /verif/replays
  mkdir -p /tmp/runs/seed-replays/$s; for f in $(ls replays | grep -v -x -F -f /tmp/runs/.replays.before); do mv replays/$f /tmp/runs/seed-replays/$s/; done
  echo "$s: property=$prop rc=$rc wall=$(( $(date +%s) - t0 ))s  $(grep -c '^VIOLATION' /tmp/runs/seed-$s-$prop.log) violation line(s)"
done
git -C /repo status --short | head -3
