#!/usr/bin/env python3
"""import_seed.py <src-dir> <seed-id> <property> <verify-log> '<needs>'  -> /verif/seeded/<seed-id>/"""
import json, os, re, shutil, sys
src, sid, prop, vlog, needs = sys.argv[1:6]
dst = os.path.join(os.path.dirname(os.path.dirname(os.path.abspath(__file__))), "seeded", sid)
os.makedirs(dst, exist_ok=True)
for f in os.listdir(src):
    if f.endswith((".diff", ".sh", ".rs", ".md")):
        shutil.copy(os.path.join(src, f), os.path.join(dst, f))
log = open(vlog).read()
m = re.search(r"== %s: apply.*?(?=\n== [A-Z0-9]+: apply|\Z)" % re.escape(os.path.basename(src)), log, re.S)
sect = m.group(0) if m else ""
meta = {
    "seed": sid,
    "breaks_property": prop,
    "needs_to_manifest": needs,
    "origin": "written by an independent sub-agent that saw only the property text and a scratch worktree (nothing from /verif)",
    "confirmed_by_me": {
        "how": "tool/verify_seed.sh: fresh worktree of /repo HEAD, git apply, cargo test --workspace --no-fail-fast --offline, demo.sh with and without the change",
        "suite_with_change": (re.search(r"SUITE (passed=\d+ failed=\d+)", sect) or [None, "?"])[1],
        "demo_with_change_rc": (re.search(r"DEMO_WITH rc=(\d+)", sect) or [None, "?"])[1],
        "demo_without_change_rc": (re.search(r"DEMO_WITHOUT rc=(\d+)", sect) or [None, "?"])[1],
    },
    "base_commit": os.popen("git -C /repo rev-parse --short HEAD").read().strip(),
}
json.dump(meta, open(os.path.join(dst, "meta.json"), "w"), indent=1)
print(sid, meta["confirmed_by_me"])
