#!/usr/bin/env python3
"""Developer helper: create an injected scratch workspace for manual probing.
   mkws.py <PID> <dir> [tier]"""
import os, sys, subprocess
HERE = os.path.dirname(os.path.abspath(__file__))
sys.path.insert(0, HERE)
import props, inject
pid, d = sys.argv[1], sys.argv[2]
tier = sys.argv[3] if len(sys.argv) > 3 else "thorough"
os.makedirs(d, exist_ok=True)
ws = os.path.join(d, "ws")
subprocess.check_call(["rm", "-rf", ws])
subprocess.check_call(["rsync", "-a", "--exclude", "/target", "--exclude", ".git", "/repo/", ws + "/"])
P = props.PROPS[pid]
insts = P.instances(tier, 0)
inject.Injector(ws, os.path.dirname(HERE), d).apply(P, insts)
for i in insts:
    print(i.full_name(), i.unwind)
