#!/bin/bash
# run_all.sh [tier] [ids...]: run checks two at a time on the current /repo, print one summary line each
cd /verif; TIER=${1:-quick}; shift; IDS="$@"; [ -z "$IDS" ] && IDS="C01 C02 C03 C04 C06 C08 C09 C11 C12 C13 C14 C16 C18"
mkdir -p /tmp/runs
run1() { t0=$(date +%s); timeout 14000 ./check $1 --tier $TIER ${CHECK_ARGS:-} > /tmp/runs/all-$1-$TIER.log 2>&1; rc=$?; echo "$1 rc=$rc wall=$(( $(date +%s)-t0 ))s $(tail -1 /tmp/runs/all-$1-$TIER.log | cut -c1-150)"; }
export -f run1; export TIER
# two checks run side by side: each gets half of the solver memory budget
export VERIF_MEM_BUDGET_GB=${VERIF_MEM_BUDGET_GB:-24}
echo $IDS | tr ' ' '\n' | xargs -P 2 -I{} bash -c 'run1 {}'
