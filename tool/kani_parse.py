"""Parse Kani's per-harness result text (regular format, as written by
--output-into-files or printed to stdout) and the concrete-playback tests."""
import re

CHECK_RE = re.compile(
    r"^Check (\d+): (.+)\n\t - Status: (\w+)\n\t - Description: \"(.*)\"\n(?:\t - Location: (.*)\n)?",
    re.M,
)


def parse_result_text(text):
    """-> dict(verdict, checks=[...], failed=[...], covers=[...], time_s, raw_reason)"""
    out = {
        "verdict": "inconclusive",
        "reason": "",
        "checks_total": 0,
        "failed": [],
        "covers": [],
        "time_s": None,
        "undetermined": 0,
        "unwind_failed": False,
        "unsupported_failed": False,
    }
    checks = []
    for m in CHECK_RE.finditer(text):
        num, name, status, desc, loc = m.groups()
        desc = desc.strip('"')
        checks.append({"n": int(num), "name": name, "status": status, "desc": desc, "loc": loc or ""})
    out["checks_total"] = len(checks)
    for c in checks:
        is_cover = ".cover." in c["name"]
        if is_cover:
            out["covers"].append({"desc": c["desc"], "status": c["status"], "loc": c["loc"]})
            continue
        if c["status"] == "FAILURE":
            if ".unwind." in c["name"] or "unwinding assertion" in c["desc"]:
                out["unwind_failed"] = True
            elif "unsupported_construct" in c["name"]:
                out["unsupported_failed"] = True
            out["failed"].append(c)
        elif c["status"] in ("UNDETERMINED", "UNREACHABLE"):
            if c["status"] == "UNDETERMINED":
                out["undetermined"] += 1
    m = re.search(r"Verification Time: ([0-9.]+)s", text)
    if m:
        out["time_s"] = float(m.group(1))
    if "CBMC timed out" in text:
        out["verdict"] = "inconclusive"
        out["reason"] = "timeout"
        return out
    if re.search(r"VERIFICATION:- SUCCESSFUL", text):
        out["verdict"] = "success"
        return out
    if re.search(r"VERIFICATION:- FAILED", text):
        if not checks:
            out["verdict"] = "inconclusive"
            out["reason"] = "cbmc failed without results (out of memory / killed / internal error)"
            return out
        if out["unwind_failed"]:
            out["verdict"] = "inconclusive"
            out["reason"] = "unwinding assertion failed (unwind bound too small for this code)"
            return out
        if out["unsupported_failed"]:
            out["verdict"] = "inconclusive"
            out["reason"] = "reachable construct unsupported by Kani"
            return out
        real = [c for c in out["failed"]]
        if real:
            out["verdict"] = "failed"
            return out
        out["verdict"] = "inconclusive"
        out["reason"] = "FAILED without a failed check"
        return out
    out["reason"] = "no verdict line in output"
    return out


PLAYBACK_RE = re.compile(
    r"/// Check for `[^`]*`: \"(.*?)\"[ \t]*\n(?:[ \t]*///[^\n]*\n|[ \t]*\n)*#\[test\]\nfn (\w+)\(\) \{\n\s*let concrete_vals: Vec<Vec<u8>> = vec!\[(.*?)\n\s*\];",
    re.S,
)


def parse_playback(text):
    """-> list of dict(check_desc, values=[[u8,...],...])"""
    res = []
    for m in PLAYBACK_RE.finditer(text):
        desc, _fn, body = m.groups()
        vals = []
        for vm in re.finditer(r"vec!\[([0-9, ]*)\]", body):
            s = vm.group(1).strip()
            vals.append([int(x) for x in s.split(",") if x.strip() != ""])
        res.append({"check_desc": desc.strip('"'), "values": vals})
    return res
