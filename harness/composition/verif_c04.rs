//! C04 — the oligo vector of a record counts its canonical k-mers, raw or
//! normalised, and is invariant under reverse complement / case / U-for-T.
//! Child module of composition::oligo: executes the private
//! OligoComputer::vectorise_one (and the KmerGenerator it drives).
#![allow(dead_code)]
use super::OligoComputer;
use crate::verif_support::*;
#[cfg(kani)]
use kmer::verif_shim::HashMap;
#[cfg(not(kani))]
use std::collections::HashMap;

/*@@TABLES@@*/

/// Struct built directly (OligoComputer::new calls rayon::current_num_threads):
/// pos_map = rank table of the real kmer_pos_maps(k) for this tree.
pub fn mk(k: usize, rank: &[usize], kcount: usize, norm: bool) -> OligoComputer {
    OligoComputer {
        in_path: String::new(),
        out_path: String::new(),
        ksize: k,
        kcount,
        threads: 1,
        pos_map: rank.to_vec(),
        pos_kmer: HashMap::new(),
        norm,
        delim: String::new(),
        memory: 0,
        header: false,
    }
}

/// The computer built by the REAL public constructor `OligoComputer::new` (+ set_norm).  Under
/// Kani `rayon::current_num_threads` is stubbed (-> 1) and `KmerGenerator::kmer_pos_maps` is
/// stubbed by the native tables of this tree (k <= 3: the map model holds 32 entries; C03
/// decides those tables).  Native replays run the real constructor without any stub.
pub fn mk_new(k: usize, norm: bool) -> OligoComputer {
    let mut oc = OligoComputer::new(String::new(), String::new(), k);
    oc.set_norm(norm);
    oc
}

#[cfg(kani)]
pub fn one_thread() -> usize {
    1
}

#[cfg(kani)]
pub fn tables_stub<'a>(ksize: usize) -> (Vec<usize>, HashMap<usize, u64>, usize)
where
    'a: 'a, // early-bound, like the impl lifetime of KmerGenerator<'a> (Kani compares generic counts)
{
    let (rank, inv, count): (&[usize], &[u64], usize) = match ksize {
        1 => (&RANK_K1, &INV_K1, COUNT_K1),
        2 => (&RANK_K2, &INV_K2, COUNT_K2),
        _ => (&RANK_K3, &INV_K3, COUNT_K3),
    };
    let mut m = HashMap::new();
    let mut p = 0;
    while p < inv.len() {
        if inv[p] != u64::MAX {
            m.insert(p, inv[p]);
        }
        p += 1;
    }
    (rank.to_vec(), m, count)
}

/// public window onto the private vectorise_one (used by the C12/C13 differentials)
pub fn vec_one(oc: &OligoComputer, seq: &[u8]) -> Vec<f64> {
    oc.vectorise_one(seq)
}

/// oracle: (number of valid windows whose canonical k-mer has column p, total valid windows);
/// `ocol` is the compiler-evaluated oracle table code -> column (verif_support::OCOL_K*).
fn oracle_counts<const K: usize, const N: usize>(s: &[u8], p: usize, ocol: &[u16]) -> (u32, u32) {
    let mut cnt = 0u32;
    let mut total = 0u32;
    let mut start = 0usize;
    while start + K <= N {
        if start + K <= s.len() && all_clean(&s[start..start + K]) {
            let w = &s[start..start + K];
            let f = fwd_code(w);
            if ocol[f as usize] as usize == p {
                cnt += 1;
            }
            total += 1;
        }
        start += 1;
    }
    (cnt, total)
}

/// Functional clause.  K concrete, N = max length, symbolic length, symbolic
/// column p; NORM selects counts mode / normalised mode.
pub fn c04_counts<const K: usize, const N: usize, const NORM: bool>(rank: &[usize], kcount: usize, ocol: &[u16]) {
    let seq: [u8; N] = any_seq::<N>();
    let len = any_usize();
    assume(len <= N);
    let s = &seq[..len];
    // k <= 3: real constructor; larger k: struct built directly from the native table (the map model is too small)
    let oc = if K <= 3 { mk_new(K, NORM) } else { mk(K, rank, kcount, NORM) };
    let v = oc.vectorise_one(s);
    check!(v.len() == kcount, "C04: row does not have one value per canonical k-mer column");
    check!(kcount == expected_count(K), "C04: column count is not the number of canonical k-mers");
    let p = any_usize();
    assume(p < kcount);
    let (cnt, total) = oracle_counts::<K, N>(s, p, ocol);
    if p < v.len() {
        if NORM {
            let d = if total == 0 { 1.0 } else { total as f64 };
            check!(v[p] == cnt as f64 / d, "C04: normalised value is not count / number of valid windows");
            if total == 0 {
                check!(v[p] == 0.0, "C04: row of a record without valid window is not all-zero");
            }
        } else {
            check!(v[p] == cnt as f64, "C04: raw value is not the number of windows whose canonical k-mer is the column's");
        }
    }
    cover!(total >= 2 && cnt >= 1, "req: two or more windows, column hit");
    cover!(total == 0 && len >= K, "opt: long enough but no valid window");
    cover!(true, "req: end of harness reached");
    core::mem::forget(v);
    core::mem::forget(oc);
}

fn toggle_case(b: u8) -> u8 {
    if (b >= b'a' && b <= b'z') || (b >= b'A' && b <= b'Z') {
        b ^ 0x20
    } else {
        b
    }
}

fn t_to_u(b: u8) -> u8 {
    match b {
        b'T' => b'U',
        b't' => b'u',
        o => o,
    }
}

/// Invariance clause: the row is unchanged by reverse-complementing the
/// record (MODE 0), by toggling letter case (MODE 1), by writing U for T (MODE 2).
pub fn c04_invariance<const K: usize, const N: usize, const MODE: u8>(rank: &[usize], kcount: usize) {
    let seq: [u8; N] = any_seq::<N>();
    let len = any_usize();
    assume(len <= N);
    let norm = any_bool();
    let mut other = [0u8; N];
    let mut i = 0;
    while i < N {
        if i < len {
            other[i] = match MODE {
                0 => rc_byte(seq[len - 1 - i]),
                1 => toggle_case(seq[i]),
                _ => t_to_u(seq[i]),
            };
        }
        i += 1;
    }
    let oc = if K <= 3 { mk_new(K, norm) } else { mk(K, rank, kcount, norm) };
    let v1 = oc.vectorise_one(&seq[..len]);
    let v2 = oc.vectorise_one(&other[..len]);
    check!(v1.len() == v2.len(), "C04: rows of a record and its transform differ in length");
    let p = any_usize();
    assume(p < kcount);
    if p < v1.len() && p < v2.len() {
        check!(v1[p].to_bits() == v2[p].to_bits(), "C04: row changes under reverse complement / case change / U-for-T");
    }
    cover!(p < v1.len() && v1[p] > 0.0, "req: non-zero entry compared");
    cover!(true, "req: end of harness reached");
    core::mem::forget(v1);
    core::mem::forget(v2);
    core::mem::forget(oc);
}
