//! C12 — k-mer CGR pairs each canonical k-mer's CGR position with its oligo
//! frequency.  Child module of composition::oligocgr: executes the private
//! OligoCgrComputer::{vectorise_one, seq_to_kmer, cgr_maps}.
#![allow(dead_code)]
use super::OligoCgrComputer;
use crate::verif_support::*;
use kmer::numeric_to_kmer;

/*@@TABLES@@*/

/// The computer is built by the REAL public constructor `OligoCgrComputer::new` (+ set_norm).
/// Under Kani two callees are stubbed (see the instance attributes):
///  * `rayon::current_num_threads` (thread-pool FFI) -> 1,
///  * `KmerGenerator::kmer_pos_maps` -> the tables of a native run of the real function on
///    this tree (C03 decides those tables; executing the function inside the solver for
///    k >= 2 takes minutes because heap data is not constant-propagated).
/// Native replays run the real constructor without any stub.
pub fn mk_new(k: usize, size: usize, norm: bool) -> OligoCgrComputer {
    let mut oc = OligoCgrComputer::new(String::new(), String::new(), k, size);
    oc.set_norm(norm);
    oc
}

#[cfg(kani)]
pub fn one_thread() -> usize {
    1
}

/// stand-in for kmer_pos_maps(k): native tables of THIS tree (k <= 3: the map model holds 32 entries)
#[cfg(kani)]
pub fn tables_stub<'a>(ksize: usize) -> (Vec<usize>, kmer::verif_shim::HashMap<usize, u64>, usize)
where
    'a: 'a, // early-bound, like the impl lifetime of KmerGenerator<'a> (Kani compares generic counts)
{
    let (rank, inv, count): (&[usize], &[u64], usize) = match ksize {
        1 => (&RANK_K1, &INV_K1, COUNT_K1),
        2 => (&RANK_K2, &INV_K2, COUNT_K2),
        _ => (&RANK_K3, &INV_K3, COUNT_K3),
    };
    let mut m = kmer::verif_shim::HashMap::new();
    let mut p = 0;
    while p < inv.len() {
        if inv[p] != u64::MAX {
            m.insert(p, inv[p]);
        }
        p += 1;
    }
    (rank.to_vec(), m, count)
}

pub fn any_size() -> usize {
    let sz = any_u32();
    assume(sz >= 1 && sz <= (1u32 << 20));
    sz as usize
}

pub fn c12_body<const K: usize, const N: usize, const NORM: bool>(kcount: usize, ocol: &[u16], ocanon: &[u64]) {
    let size = any_size();
    let s = size as f64;
    let seq: [u8; N] = any_seq::<N>();
    // concrete length per instance: the real code allocates Vec::with_capacity(seq.len())
    // and then pushes kcount items; a symbolic capacity makes every push fork into re-allocation
    let len = N;
    let oc = mk_new(K, size, NORM);
    let res = oc.vectorise_one(&seq[..len]);
    check!(res.is_ok(), "C12: k-mer CGR of a record fails");
    if let Ok(out) = res {
        check!(out.len() == kcount, "C12: row does not have one triple per canonical k-mer column");
        let p = any_usize();
        assume(p < kcount);
        if p < out.len() {
            let ((x, y), f) = out[p];
            // (x, y): chaos-game end point of the text of the p-th canonical k-mer
            let cp = ocanon[p];
            let mut m = (s / 2.0, s / 2.0);
            let mut j = 0;
            while j < K {
                let d = (cp >> (2 * (K - 1 - j))) & 3;
                let c = match d {
                    0 => (0.0, 0.0),
                    1 => (0.0, s),
                    2 => (s, s),
                    _ => (s, 0.0),
                };
                m = ((c.0 + m.0) / 2.0, (c.1 + m.1) / 2.0);
                j += 1;
            }
            check!(x == m.0 && y == m.1, "C12: (x, y) is not the chaos-game end point of the column's k-mer text");
            // f: the oligonucleotide value of that column for this record
            let mut cnt = 0u32;
            let mut total = 0u32;
            let mut st = 0usize;
            while st + K <= N {
                if st + K <= len && all_clean(&seq[st..st + K]) {
                    let w = &seq[st..st + K];
                    let a = fwd_code(w);
                    if ocol[a as usize] as usize == p {
                        cnt += 1;
                    }
                    total += 1;
                }
                st += 1;
            }
            if NORM {
                let d = if total == 0 { 1.0 } else { total as f64 };
                check!(f == cnt as f64 / d, "C12: f is not the normalised oligo frequency of the column");
            } else {
                check!(f == cnt as f64, "C12: f is not the raw oligo count of the column");
            }
            cover!(cnt >= 1 && (total >= 2 || N < K + 1), "opt: column hit, two or more windows");
        }
        core::mem::forget(out);
    }
    cover!(true, "req: end of harness reached");
    core::mem::forget(oc);
}

/// (x, y) of a column is the same in every row: two different records give bit-equal coordinates.
pub fn c12_rowindep<const K: usize, const N: usize>(kcount: usize) {
    let size = any_size();
    let s1: [u8; N] = any_seq::<N>();
    let s2: [u8; N] = any_seq::<N>();
    let norm = any_bool();
    let oc = mk_new(K, size, norm);
    let r1 = oc.vectorise_one(&s1[..]);
    let r2 = oc.vectorise_one(&s2[..]);
    check!(r1.is_ok() && r2.is_ok(), "C12: k-mer CGR of a record fails");
    if let (Ok(a), Ok(b)) = (r1, r2) {
        let p = any_usize();
        assume(p < kcount);
        if p < a.len() && p < b.len() {
            check!(a[p].0 .0.to_bits() == b[p].0 .0.to_bits() && a[p].0 .1.to_bits() == b[p].0 .1.to_bits(), "C12: CGR position of a column differs between rows");
        }
        cover!(true, "req: two rows compared");
        core::mem::forget(a);
        core::mem::forget(b);
    }
    cover!(true, "req: end of harness reached");
    core::mem::forget(oc);
}
