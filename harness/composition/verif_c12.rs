//! C12 — k-mer CGR pairs each canonical k-mer's CGR position with its oligo
//! frequency.  Child module of composition::oligocgr: executes the private
//! OligoCgrComputer::{vectorise_one, seq_to_kmer, cgr_maps}.
#![allow(dead_code)]
use super::OligoCgrComputer;
use crate::verif_support::*;
use kmer::numeric_to_kmer;

/*@@TABLES@@*/

/// Struct built directly (OligoCgrComputer::new calls rayon::current_num_threads);
/// `kmers` is built the way `new` builds it: numeric_to_kmer of the inverse table.
pub fn mk(k: usize, rank: &[usize], inv: &[u64], kcount: usize, s: f64, norm: bool) -> OligoCgrComputer {
    let (cgr_center, cgr_map) = OligoCgrComputer::cgr_maps(s);
    let mut kmers = vec![String::new(); kcount];
    let mut p = 0;
    while p < kcount {
        kmers[p] = numeric_to_kmer(inv[p], k);
        p += 1;
    }
    OligoCgrComputer {
        in_path: String::new(),
        out_path: String::new(),
        threads: 1,
        norm,
        ksize: k,
        memory: 0,
        cgr_center,
        cgr_map,
        kmers,
        pos_map: rank.to_vec(),
        kcount,
    }
}

pub fn any_size() -> f64 {
    let sz = any_u32();
    assume(sz >= 1 && sz <= (1u32 << 20));
    sz as f64
}

pub fn c12_body<const K: usize, const N: usize, const NORM: bool>(rank: &[usize], inv: &[u64], kcount: usize, ocol: &[u16], ocanon: &[u64]) {
    let s = any_size();
    let seq: [u8; N] = any_seq::<N>();
    // concrete length per instance: the real code allocates Vec::with_capacity(seq.len())
    // and then pushes kcount items; a symbolic capacity makes every push fork into re-allocation
    let len = N;
    let oc = mk(K, rank, inv, kcount, s, NORM);
    let res = oc.vectorise_one(&seq[..len]);
    check!(res.is_ok(), "C12: k-mer CGR of a record fails");
    if let Ok(out) = res {
        check!(out.len() == kcount, "C12: row does not have one triple per canonical k-mer column");
        let p = any_usize();
        assume(p < kcount);
        if p < out.len() {
            let ((x, y), f) = out[p];
            // (x, y): chaos-game end point of the text of the p-th canonical k-mer
            let cp = ocanon[p];
            let mut m = (s / 2.0, s / 2.0);
            let mut j = 0;
            while j < K {
                let d = (cp >> (2 * (K - 1 - j))) & 3;
                let c = match d {
                    0 => (0.0, 0.0),
                    1 => (0.0, s),
                    2 => (s, s),
                    _ => (s, 0.0),
                };
                m = ((c.0 + m.0) / 2.0, (c.1 + m.1) / 2.0);
                j += 1;
            }
            check!(x == m.0 && y == m.1, "C12: (x, y) is not the chaos-game end point of the column's k-mer text");
            // f: the oligonucleotide value of that column for this record
            let mut cnt = 0u32;
            let mut total = 0u32;
            let mut st = 0usize;
            while st + K <= N {
                if st + K <= len && all_clean(&seq[st..st + K]) {
                    let w = &seq[st..st + K];
                    let a = fwd_code(w);
                    if ocol[a as usize] as usize == p {
                        cnt += 1;
                    }
                    total += 1;
                }
                st += 1;
            }
            if NORM {
                let d = if total == 0 { 1.0 } else { total as f64 };
                check!(f == cnt as f64 / d, "C12: f is not the normalised oligo frequency of the column");
            } else {
                check!(f == cnt as f64, "C12: f is not the raw oligo count of the column");
            }
            cover!(cnt >= 1 && (total >= 2 || N < K + 1), "opt: column hit, two or more windows");
        }
        core::mem::forget(out);
    }
    cover!(true, "req: end of harness reached");
    core::mem::forget(oc);
}

/// (x, y) of a column is the same in every row: two different records give bit-equal coordinates.
pub fn c12_rowindep<const K: usize, const N: usize>(rank: &[usize], inv: &[u64], kcount: usize) {
    let s = any_size();
    let s1: [u8; N] = any_seq::<N>();
    let s2: [u8; N] = any_seq::<N>();
    let norm = any_bool();
    let oc = mk(K, rank, inv, kcount, s, norm);
    let r1 = oc.vectorise_one(&s1[..]);
    let r2 = oc.vectorise_one(&s2[..]);
    check!(r1.is_ok() && r2.is_ok(), "C12: k-mer CGR of a record fails");
    if let (Ok(a), Ok(b)) = (r1, r2) {
        let p = any_usize();
        assume(p < kcount);
        if p < a.len() && p < b.len() {
            check!(a[p].0 .0.to_bits() == b[p].0 .0.to_bits() && a[p].0 .1.to_bits() == b[p].0 .1.to_bits(), "C12: CGR position of a column differs between rows");
        }
        cover!(true, "req: two rows compared");
        core::mem::forget(a);
        core::mem::forget(b);
    }
    cover!(true, "req: end of harness reached");
    core::mem::forget(oc);
}
