//! C14 (a) for the k-mer CGR accumulator: safety-only run of the private
//! OligoCgrComputer::seq_to_kmer.  Child module of composition::oligocgr.
#![allow(dead_code)]
use super::OligoCgrComputer;
use crate::verif_support::*;

/*@@TABLES@@*/

pub fn c14_oligocgr_safety<const K: usize, const N: usize>(rank: &[usize], kcount: usize) {
    let seq: [u8; N] = any_seq::<N>();
    let len = any_usize();
    assume(len <= N);
    let norm = false; // the normalisation pass is safe (checked) code; indexing does not depend on it
    let (cgr_center, cgr_map) = OligoCgrComputer::cgr_maps(1.0);
    let oc = OligoCgrComputer {
        in_path: String::new(),
        out_path: String::new(),
        threads: 1,
        norm,
        ksize: K,
        memory: 0,
        cgr_center,
        cgr_map,
        kmers: Vec::new(),
        pos_map: rank.to_vec(),
        kcount,
    };
    let v = oc.seq_to_kmer(&seq[..len]);
    check!(v.len() == kcount, "C14: accumulator does not have kcount entries");
    cover!(len == N, "req: full-length record");
    cover!(true, "req: end of harness reached");
    core::mem::forget(v);
    core::mem::forget(oc);
}
