//! Native-only helper (child module of composition::oligo): renders the header the
//! way the CLI does — the REAL OligoComputer::new + the private get_header — so that
//! /verif can dump it for k = 4..=7 (input-free besides k) and let the solver decide
//! the quantified obligations over the dumped names.
#![allow(dead_code)]
#[cfg(not(kani))]
pub fn header_names(k: usize) -> Vec<String> {
    super::OligoComputer::new(String::new(), String::new(), k).get_header()
}
