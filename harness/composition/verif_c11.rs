//! C11 — whole-sequence CGR follows the chaos-game midpoint rule inside the
//! square; any other byte is rejected.  Child module of composition::cgr:
//! executes cgr_maps and the private CgrComputer::vectorise_one.
#![allow(dead_code)]
use super::{cgr_maps, CgrComputer};
use crate::verif_support::*;

pub fn mk(s: f64) -> CgrComputer {
    let (cgr_center, cgr_map) = cgr_maps(s);
    CgrComputer {
        in_path: String::new(),
        out_path: String::new(),
        threads: 1,
        memory: 0,
        cgr_center,
        cgr_map,
    }
}

/// The computer built by the REAL public constructor (rayon::current_num_threads stubbed -> 1 under Kani).
pub fn mk_new(size: usize) -> CgrComputer {
    CgrComputer::new(String::new(), String::new(), size)
}

#[cfg(kani)]
pub fn one_thread() -> usize {
    1
}

/// public window onto the private vectorise_one (used by the C13 differential)
pub fn vec_one(cc: &CgrComputer, seq: &[u8]) -> Result<Vec<(f64, f64)>, String> {
    cc.vectorise_one(seq)
}

/// corner of a base, from the property text; None for any other byte
pub fn corner(b: u8, s: f64) -> Option<(f64, f64)> {
    match b {
        b'A' | b'a' => Some((0.0, 0.0)),
        b'C' | b'c' => Some((0.0, s)),
        b'G' | b'g' => Some((s, s)),
        b'T' | b't' | b'U' | b'u' => Some((s, 0.0)),
        _ => None,
    }
}

pub fn any_size() -> usize {
    let sz = any_u32();
    assume(sz >= 1 && sz <= (1u32 << 20));
    sz as usize
}

/// N = length (concrete per instance: the real code allocates
/// Vec::with_capacity(seq.len()), and a symbolic allocation size is very costly
/// for CBMC); ALL 256 byte values are allowed (rejection clause).
pub fn c11_body<const N: usize>() {
    let size = any_size();
    let s = size as f64;
    let seq: [u8; N] = any_bytes::<N>();
    let len = N;
    let cc = mk_new(size);
    let res = cc.vectorise_one(&seq[..len]);
    let mut all_nuc = true;
    let mut i = 0;
    while i < N {
        if i < len && corner(seq[i], s).is_none() {
            all_nuc = false;
        }
        i += 1;
    }
    match res {
        Ok(v) => {
            check!(all_nuc, "C11: coordinates are returned for a record containing a non-nucleotide byte");
            check!(v.len() == len, "C11: output does not have one point per base");
            let mut prev = (s / 2.0, s / 2.0);
            let mut i = 0;
            while i < N {
                if i < len && i < v.len() && all_nuc {
                    let c = corner(seq[i], s).unwrap();
                    let exp = ((c.0 + prev.0) / 2.0, (c.1 + prev.1) / 2.0);
                    check!(v[i].0 == exp.0 && v[i].1 == exp.1, "C11: a point is not the midpoint between the previous point and the base's corner");
                    // exactness witness: no rounding happened, so the dyadic oracle and f64 agree
                    check!(2.0 * v[i].0 - c.0 == prev.0 && 2.0 * v[i].1 - c.1 == prev.1, "C11: midpoint not exactly representable inside the bound (oracle not exact)");
                    check!(v[i].0 >= 0.0 && v[i].0 <= s && v[i].1 >= 0.0 && v[i].1 <= s, "C11: a point lies outside the square");
                    // the last base confines the point to its corner's quadrant (side S/2)
                    let h = s / 2.0;
                    let lox = if c.0 == 0.0 { 0.0 } else { h };
                    let loy = if c.1 == 0.0 { 0.0 } else { h };
                    check!(v[i].0 >= lox && v[i].0 <= lox + h && v[i].1 >= loy && v[i].1 <= loy + h, "C11: a point is outside the sub-square of its last base");
                    if i >= 1 {
                        // the last two bases confine it to a sub-square of side S/4
                        let c1 = corner(seq[i - 1], s).unwrap();
                        let q = s / 4.0;
                        let lox2 = c.0 / 2.0 + c1.0 / 4.0;
                        let loy2 = c.1 / 2.0 + c1.1 / 4.0;
                        check!(v[i].0 >= lox2 && v[i].0 <= lox2 + q && v[i].1 >= loy2 && v[i].1 <= loy2 + q, "C11: a point is outside the sub-square of its last two bases");
                    }
                    prev = exp;
                }
                i += 1;
            }
            cover!(len == N, "req: full-length accepted record");
            core::mem::forget(v);
        }
        Err(e) => {
            check!(!all_nuc, "C11: a record over A/C/G/T/U is rejected");
            cover!(len >= 1, "opt: rejected record");
            core::mem::forget(e);
        }
    }
    cover!(true, "req: end of harness reached");
    core::mem::forget(cc);
}

/// Prefix determinism: point i depends only on the first i bases — the
/// points of seq[..len-1] are the first len-1 points of seq[..len].
pub fn c11_prefix<const N: usize>() {
    let size = any_size();
    let seq: [u8; N] = any_bytes::<N>();
    let cc = mk_new(size);
    let full = cc.vectorise_one(&seq[..N]);
    let pre = cc.vectorise_one(&seq[..N - 1]);
    if let Ok(v) = full {
        check!(pre.is_ok(), "C11: a prefix of an accepted record is rejected");
        if let Ok(p) = pre {
            check!(p.len() + 1 == v.len(), "C11: prefix has a different number of points");
            let mut i = 0;
            while i + 1 < N {
                if i < p.len() && i < v.len() {
                    check!(p[i].0.to_bits() == v[i].0.to_bits() && p[i].1.to_bits() == v[i].1.to_bits(), "C11: point i depends on bases after i");
                }
                i += 1;
            }
            cover!(true, "req: accepted record compared with its prefix");
            core::mem::forget(p);
        }
        core::mem::forget(v);
    } else {
        core::mem::forget(full);
        core::mem::forget(pre);
    }
    cover!(true, "req: end of harness reached");
    core::mem::forget(cc);
}
