//! C14 — unchecked indexing and memory-mapped writes stay inside their
//! buffers.  Child module of composition::oligo.
//!  (a) safety-only runs of the private vectorise_one (Kani's pointer checks
//!      decide every get_unchecked);
//!  (c) the offset arithmetic of vectorise_mmap, EXTRACTED from the current
//!      source text of composition/src/oligo.rs by /verif/tool (see the block
//!      between the C14C markers below) and checked for exact tiling.
#![allow(dead_code, unused_variables, unused_mut)]
use super::OligoComputer;
use crate::verif_support::*;
#[cfg(kani)]
use kmer::verif_shim::HashMap;
#[cfg(not(kani))]
use std::collections::HashMap;

/*@@TABLES@@*/

pub fn mk(k: usize, rank: &[usize], kcount: usize, norm: bool) -> OligoComputer {
    OligoComputer {
        in_path: String::new(),
        out_path: String::new(),
        ksize: k,
        kcount,
        threads: 1,
        pos_map: rank.to_vec(),
        pos_kmer: HashMap::new(),
        norm,
        delim: String::new(),
        memory: 0,
        header: false,
    }
}

/// (a) every index used without bounds checking by vectorise_one is inside
/// its buffer, for every record (Kani's pointer/bounds checks are the assertions).
pub fn c14_oligo_safety<const K: usize, const N: usize>(rank: &[usize], kcount: usize) {
    let seq: [u8; N] = any_seq::<N>();
    let len = any_usize();
    assume(len <= N);
    let norm = false; // the normalisation pass is safe (checked) code; indexing does not depend on it
    // precondition actually relied upon by the unsafe block: table shape
    check!(rank.len() == pow4(K) as usize, "C14: pos_map does not have 4^k entries (get_unchecked(min_mer) would leave the buffer)");
    let oc = mk(K, rank, kcount, norm);
    let v = oc.vectorise_one(&seq[..len]);
    check!(v.len() == kcount, "C14: accumulator does not have kcount entries");
    cover!(len == N, "req: full-length record");
    cover!(true, "req: end of harness reached");
    core::mem::forget(v);
    core::mem::forget(oc);
}

/// every entry of the rank table is a valid accumulator index (decided for a symbolic code)
pub fn c14_table_range<const K: usize>(rank: &[usize], kcount: usize) {
    let x = any_usize();
    assume(x < rank.len());
    check!(rank[x] < kcount, "C14: pos_map holds an index outside the accumulator (get_unchecked_mut would leave the buffer)");
    cover!(true, "req: end of harness reached");
}

/// (c) rows written by vectorise_mmap tile the mapped file exactly.
/// K and the delimiter length D concrete per instance; seq_count <= MAXREC,
/// record numbers and header flag symbolic.  (With up to 2^20 records the
/// monotonicity/distributivity facts about 64-bit multiplication that the
/// UNSAT proof needs did not finish in 15 min on the SAT back end; the offset
/// expressions are affine in the record number, so small record counts expose
/// any wrong coefficient, and `c14c_no_overflow` covers the large scale.)
pub fn c14c_tiling<const K: usize, const D: usize, const MAXREC: usize>() {
    let k = K;
    let kcount = expected_count(K);
    let seq_count = any_usize();
    assume(seq_count >= 1 && seq_count <= MAXREC);
    let n = any_usize();
    assume(n < seq_count);
    let n2 = any_usize();
    assume(n2 < seq_count);
    let delim_len = D;
    let header_on = any_bool();

    #[cfg(not(kani))]
    {
        // native replay: the REAL OligoComputer decides (public API, real files)
        native_end_to_end(K, kcount, seq_count, delim_len, header_on);
        return;
    }

    // length of the header line: kcount names of k letters joined by the delimiter + '\n'
    let header_len = if header_on { kcount * k + (kcount - 1) * delim_len + 1 } else { 0 };
    // ---- C14C: slice extracted from composition/src/oligo.rs (vectorise_mmap) ----
    /*@@C14C@@*/
    // ---- end of extracted block ----
    // row-length model: kcount numbers of NUMBER_SIZE characters joined by the delimiter + '\n'
    let row_len = kcount * NUMBER_SIZE + (kcount - 1) * delim_len + 1;
    let me = Me { kcount, ksize: k, delim: Dl(delim_len), header: header_on, norm: true, threads: 1 };
    let (file_size, a, hdr_pos) = layout(&me, seq_count, header_len, row_len, n);
    let (_, b, _) = layout(&me, seq_count, header_len, row_len, n2);
    let (_, first, _) = layout(&me, seq_count, header_len, row_len, 0);
    let (_, last, _) = layout(&me, seq_count, header_len, row_len, seq_count - 1);
    check!(a >= header_len, "C14: a row is written over the header");
    check!(a + row_len <= file_size, "C14: a row is written (partly) outside the mapped file");
    if n < n2 {
        check!(a + row_len <= b, "C14: rows of different records overlap or are out of order");
    }
    if n + 1 == n2 {
        check!(a + row_len == b, "C14: consecutive rows are not adjacent (bytes left unwritten)");
    }
    check!(first == header_len, "C14: first row does not start right after the header");
    check!(last + row_len == file_size, "C14: file size is not header length + records x row length");
    check!(hdr_pos == 0 && header_len <= file_size, "C14: header is not written at the start of the mapped file");
    cover!(n + 1 == n2 && header_on, "req: consecutive rows, header on");
    cover!(n + 1 < n2 && !header_on, "req: non-adjacent rows, header off");
    cover!(true, "req: end of harness reached");
}

/// Large scale: for up to 2^32 records of the widest rows the extracted offset
/// arithmetic does not overflow (Kani's overflow checks are the assertions) and
/// every row still starts at or after the header.
pub fn c14c_no_overflow<const K: usize, const D: usize>() {
    let k = K;
    let kcount = expected_count(K);
    let seq_count = any_usize();
    assume(seq_count >= 1 && seq_count <= (1usize << 32));
    let n = any_usize();
    assume(n < seq_count);
    let delim_len = D;
    let header_on = any_bool();
    let header_len = if header_on { kcount * k + (kcount - 1) * delim_len + 1 } else { 0 };
    /*@@C14C@@*/
    let row_len = kcount * NUMBER_SIZE + (kcount - 1) * delim_len + 1;
    let me = Me { kcount, ksize: k, delim: Dl(delim_len), header: header_on, norm: true, threads: 1 };
    let (file_size, a, _) = layout(&me, seq_count, header_len, row_len, n);
    check!(a >= header_len, "C14: a row is written over the header");
    check!(file_size >= header_len, "C14: file size is not header length + records x row length");
    cover!(seq_count > (1usize << 31), "req: more than 2^31 records");
    cover!(true, "req: end of harness reached");
}

#[cfg(not(kani))]
fn native_end_to_end(k: usize, kcount: usize, seq_count: usize, delim_len: usize, header_on: bool) {
    use std::io::Write;
    let recs = if seq_count > 40 { 40 } else { seq_count };
    let dir = std::env::temp_dir().join(format!("verif_c14_{}", std::process::id()));
    std::fs::create_dir_all(&dir).unwrap();
    let fa = dir.join("in.fa");
    let out = dir.join("out.kmers");
    {
        let mut f = std::fs::File::create(&fa).unwrap();
        let bases = [b'A', b'C', b'G', b'T'];
        for r in 0..recs {
            let mut s = Vec::new();
            for j in 0..(k + 6) {
                s.push(bases[(r * 7 + j * (r % 3 + 1) + j / 3) % 4]);
            }
            writeln!(f, ">r{}", r).unwrap();
            f.write_all(&s).unwrap();
            writeln!(f).unwrap();
        }
    }
    let delim: String = "abcd"[..delim_len].to_string();
    let mut oc = OligoComputer::new(fa.to_str().unwrap().to_owned(), out.to_str().unwrap().to_owned(), k);
    oc.set_threads(1);
    oc.set_delim(delim);
    oc.set_header(header_on);
    let r = oc.vectorise();
    let data = std::fs::read(&out).unwrap_or_default();
    let _ = std::fs::remove_dir_all(&dir);
    let header_len = if header_on { kcount * k + (kcount - 1) * delim_len + 1 } else { 0 };
    let row_len = kcount * 8 + (kcount - 1) * delim_len + 1;
    println!("REPLAY-INFO: real OligoComputer k={} records={} delim_len={} header={} -> file of {} bytes, expected {} ; result {:?}",
             k, recs, delim_len, header_on, data.len(), header_len + recs * row_len, r);
    check!(r.is_ok(), "C14: (end-to-end) the real OligoComputer fails");
    check!(data.len() == header_len + recs * row_len, "C14: (end-to-end) output file of the real OligoComputer is not header length + records x row length");
    check!(!data.contains(&0u8), "C14: (end-to-end) output file of the real OligoComputer has unwritten (NUL) bytes");
    let lines = data.iter().filter(|&&b| b == b'\n').count();
    check!(lines == recs + if header_on { 1 } else { 0 }, "C14: (end-to-end) output file of the real OligoComputer does not have one row per record");
}
