"""Generates Rust `static` tables by running the REAL kmer_pos_maps(k) of the
scratch snapshot natively (the function has no input besides k, so concrete
and symbolic execution coincide).  Regenerated on every check run."""

DUMP_MAIN = r'''
use kmer::kmer::KmerGenerator;
fn main() {
    let ks: Vec<usize> = std::env::args().skip(1).map(|a| a.parse().unwrap()).collect();
    for k in ks {
        let (rank, inv, count) = KmerGenerator::kmer_pos_maps(k);
        println!("K {} {} {}", k, count, rank.len());
        println!("RANK {}", rank.iter().map(|v| v.to_string()).collect::<Vec<_>>().join(" "));
        let mut invv: Vec<String> = Vec::new();
        println!("INVLEN {}", inv.len());
        for p in 0..count {
            match inv.get(&p) { Some(v) => invv.push(v.to_string()), None => invv.push("MISSING".to_string()) }
        }
        println!("INV {}", invv.join(" "));
    }
}
'''


def dump_tables(inj, ks):
    """-> {k: (count, rank[], inv[])}"""
    import os, subprocess
    main = DUMP_MAIN.replace("std::env::args().skip(1).map(|a| a.parse().unwrap()).collect()",
                             "vec![%s]" % ", ".join(str(k) for k in ks))
    out = inj.native_run("kmer", main, ["kmer"], "tables")
    res = {}
    lines = out.splitlines()
    i = 0
    while i < len(lines):
        if lines[i].startswith("K "):
            _, k, count, rlen = lines[i].split()
            rank = lines[i + 1].split()[1:]
            invlen = int(lines[i + 2].split()[1])
            inv = lines[i + 3].split()[1:]
            res[int(k)] = (int(count), [int(x) for x in rank], inv, invlen)
            i += 4
        else:
            i += 1
    return res


def rust_tables(tabs):
    """Rust source with one set of statics per k.  A MISSING inverse entry
    (possible only if the real code is wrong) is encoded as u64::MAX."""
    src = []
    for k, (count, rank, inv, invlen) in sorted(tabs.items()):
        src.append("pub const COUNT_K%d: usize = %d;" % (k, count))
        src.append("pub const INVLEN_K%d: usize = %d;" % (k, invlen))
        src.append("pub static RANK_K%d: [usize; %d] = [%s];" % (k, len(rank), ", ".join(str(x) for x in rank)))
        src.append("pub static INV_K%d: [u64; %d] = [%s];" % (k, len(inv), ", ".join("u64::MAX" if x == "MISSING" else x for x in inv)))
    return "\n".join(src) + "\n"
