//! Support layer shared by every injected harness module.
//!
//! Under `cfg(kani)` the primitives are Kani's: `any_*` are symbolic values,
//! `check!` is an assertion decided by the solver, `cover!` a reachability
//! witness.  Under `cfg(verif_replay)` (native build used to *replay* a
//! counterexample against the real code with the std containers) `any_*` pop
//! the concrete bytes that Kani's concrete playback printed, in call order.
#![allow(dead_code, unused_macros, unused_imports, long_running_const_eval)]

#[cfg(kani)]
mod imp {
    #[inline(always)]
    pub fn any_u8() -> u8 {
        kani::any()
    }
    #[inline(always)]
    pub fn any_bool() -> bool {
        kani::any()
    }
    #[inline(always)]
    pub fn any_u32() -> u32 {
        kani::any()
    }
    #[inline(always)]
    pub fn any_u64() -> u64 {
        kani::any()
    }
    #[inline(always)]
    pub fn any_usize() -> usize {
        kani::any()
    }
    #[inline(always)]
    pub fn assume(c: bool) {
        kani::assume(c)
    }
}

#[cfg(not(kani))]
mod imp {
    use std::cell::RefCell;
    thread_local! {
        pub static INPUT: RefCell<(Vec<Vec<u8>>, usize)> = RefCell::new((Vec::new(), 0));
    }
    pub fn set_input(v: Vec<Vec<u8>>) {
        INPUT.with(|i| *i.borrow_mut() = (v, 0));
    }
    fn pop(n: usize) -> Vec<u8> {
        INPUT.with(|i| {
            let mut g = i.borrow_mut();
            let idx = g.1;
            if idx >= g.0.len() {
                println!("REPLAY-ERROR: input exhausted at value #{}", idx);
                std::process::exit(4);
            }
            let v = g.0[idx].clone();
            if v.len() != n {
                println!(
                    "REPLAY-ERROR: value #{} has {} bytes, harness wants {}",
                    idx,
                    v.len(),
                    n
                );
                std::process::exit(4);
            }
            g.1 += 1;
            v
        })
    }
    pub fn any_u8() -> u8 {
        pop(1)[0]
    }
    pub fn any_bool() -> bool {
        pop(1)[0] & 1 == 1
    }
    pub fn any_u32() -> u32 {
        let v = pop(4);
        u32::from_le_bytes([v[0], v[1], v[2], v[3]])
    }
    pub fn any_u64() -> u64 {
        let v = pop(8);
        let mut a = [0u8; 8];
        a.copy_from_slice(&v);
        u64::from_le_bytes(a)
    }
    pub fn any_usize() -> usize {
        any_u64() as usize
    }
    pub fn assume(c: bool) {
        if !c {
            println!("REPLAY-ERROR: an assumption of the harness does not hold for these inputs");
            std::process::exit(3);
        }
    }
}

pub use imp::*;

/// Property assertion.  Kani: solver-decided; replay: prints the label and
/// exits with status 1 so the driver can match it with the failed check.
#[cfg(kani)]
macro_rules! check {
    ($c:expr, $m:literal) => {
        assert!($c, $m)
    };
}
#[cfg(not(kani))]
macro_rules! check {
    ($c:expr, $m:literal) => {
        if !($c) {
            println!("REPLAY-FAIL: {}", $m);
            std::process::exit(1);
        }
    };
}
#[cfg(kani)]
macro_rules! cover {
    ($c:expr, $m:literal) => {
        kani::cover!($c, $m)
    };
}
#[cfg(not(kani))]
macro_rules! cover {
    ($c:expr, $m:literal) => {
        if $c {
            println!("REPLAY-COVER: {}", $m);
        }
    };
}
pub(crate) use check;
pub(crate) use cover;

/// Symbolic byte outside the range 0x00-0x03 (left unspecified by C01/C09).
pub fn any_seq_byte() -> u8 {
    let b = any_u8();
    assume(b > 3);
    b
}

pub fn any_seq<const N: usize>() -> [u8; N] {
    let mut a = [0u8; N];
    let mut i = 0;
    while i < N {
        a[i] = any_seq_byte();
        i += 1;
    }
    a
}

pub fn any_bytes<const N: usize>() -> [u8; N] {
    let mut a = [0u8; N];
    let mut i = 0;
    while i < N {
        a[i] = any_u8();
        i += 1;
    }
    a
}

// ---------------------------------------------------------------------------
// Oracles, written from the property text (not from the implementation).

/// 2-bit code of a nucleotide letter, 4 = anything else (C01).
pub fn code(b: u8) -> u8 {
    match b {
        b'A' | b'a' => 0,
        b'C' | b'c' => 1,
        b'G' | b'g' => 2,
        b'T' | b't' | b'U' | b'u' => 3,
        _ => 4,
    }
}

/// 4^k as u64 (k <= 31).
pub fn pow4(k: usize) -> u64 {
    let mut p = 1u64;
    let mut i = 0;
    while i < k {
        p *= 4;
        i += 1;
    }
    p
}

/// Forward code of the window `w` (all bytes must be clean): leftmost base
/// most significant.
pub fn fwd_code(w: &[u8]) -> u64 {
    let mut f = 0u64;
    let mut j = 0;
    while j < w.len() {
        f = f * 4 + code(w[j]) as u64;
        j += 1;
    }
    f
}

/// Code of the reverse complement of the window `w`.
pub fn rev_code(w: &[u8]) -> u64 {
    let mut r = 0u64;
    let mut j = w.len();
    while j > 0 {
        j -= 1;
        r = r * 4 + (3 - code(w[j]) as u64);
    }
    r
}

pub fn all_clean(w: &[u8]) -> bool {
    let mut j = 0;
    while j < w.len() {
        if code(w[j]) > 3 {
            return false;
        }
        j += 1;
    }
    true
}

/// Text-level reverse complement of a k-mer *code*: reverse the base-4 digits
/// and complement each (3 - d).
pub fn rc_code_oracle(x: u64, k: usize) -> u64 {
    let mut r = 0u64;
    let mut x = x;
    let mut j = 0;
    while j < k {
        r = r * 4 + (3 - (x % 4));
        x /= 4;
        j += 1;
    }
    r
}

/// Byte-level reverse complement used by the symmetry clauses: reverse the
/// order, A<->T, C<->G, U->A, case kept, every other byte kept.
pub fn rc_byte(b: u8) -> u8 {
    match b {
        b'A' => b'T',
        b'C' => b'G',
        b'G' => b'C',
        b'T' | b'U' => b'A',
        b'a' => b't',
        b'c' => b'g',
        b'g' => b'c',
        b't' | b'u' => b'a',
        o => o,
    }
}


// ---------------------------------------------------------------------------
// Oracle tables evaluated by the COMPILER (const fn), so that harnesses need no
// 4^k-iteration loops at verification time.  Independent of the repository:
// written from the property text (canonical = not larger than its own reverse
// complement; columns = canonical k-mers in increasing code order).

pub const fn rc_code_const(x: u64, k: usize) -> u64 {
    let mut r = 0u64;
    let mut x = x;
    let mut j = 0;
    while j < k {
        r = r * 4 + (3 - (x % 4));
        x /= 4;
        j += 1;
    }
    r
}

/// T = 4^K.  Entry x = column (rank among canonical codes) of the canonical
/// form of code x.
pub const fn oracle_column_table<const K: usize, const T: usize>() -> [u16; T] {
    // rank of each canonical code
    let mut rank = [0u16; T];
    let mut n = 0u16;
    let mut z = 0usize;
    while z < T {
        if (z as u64) <= rc_code_const(z as u64, K) {
            rank[z] = n;
            n += 1;
        }
        z += 1;
    }
    let mut out = [0u16; T];
    let mut x = 0usize;
    while x < T {
        let r = rc_code_const(x as u64, K) as usize;
        let c = if x < r { x } else { r };
        out[x] = rank[c];
        x += 1;
    }
    out
}

/// C = number of canonical K-mers.  Entry p = the p-th canonical code.
pub const fn oracle_canonical_list<const K: usize, const T: usize, const C: usize>() -> [u64; C] {
    let mut out = [0u64; C];
    let mut n = 0usize;
    let mut z = 0usize;
    while z < T {
        if (z as u64) <= rc_code_const(z as u64, K) {
            out[n] = z as u64;
            n += 1;
        }
        z += 1;
    }
    out
}

pub static OCOL_K1: [u16; 4] = oracle_column_table::<1, 4>();
pub static OCOL_K2: [u16; 16] = oracle_column_table::<2, 16>();
pub static OCOL_K3: [u16; 64] = oracle_column_table::<3, 64>();
pub static OCOL_K4: [u16; 256] = oracle_column_table::<4, 256>();
pub static OCOL_K5: [u16; 1024] = oracle_column_table::<5, 1024>();
pub static OCOL_K6: [u16; 4096] = oracle_column_table::<6, 4096>();
pub static OCOL_K7: [u16; 16384] = oracle_column_table::<7, 16384>();
pub static OCANON_K1: [u64; 2] = oracle_canonical_list::<1, 4, 2>();
pub static OCANON_K2: [u64; 10] = oracle_canonical_list::<2, 16, 10>();
pub static OCANON_K3: [u64; 32] = oracle_canonical_list::<3, 64, 32>();
pub static OCANON_K4: [u64; 136] = oracle_canonical_list::<4, 256, 136>();
pub static OCANON_K5: [u64; 512] = oracle_canonical_list::<5, 1024, 512>();
pub static OCANON_K6: [u64; 2080] = oracle_canonical_list::<6, 4096, 2080>();
pub static OCANON_K7: [u64; 8192] = oracle_canonical_list::<7, 16384, 8192>();

pub fn expected_count(k: usize) -> usize {
    let p = pow4(k) as usize;
    if k % 2 == 0 {
        (p + pow4(k / 2) as usize) / 2
    } else {
        p / 2
    }
}
