//! C14 (d) — the partition index of the k-mer counter stays inside the table.
//! `count_chunk` indexes `counts_table` (length `self.n_parts as usize`) with
//! `get_unchecked((min_mer % self.n_parts) as usize)` inside rayon workers; the
//! function cannot be executed symbolically (threads, scc, file I/O).  The three
//! expressions involved — the table length, the index, and how `init()` computes
//! n_parts — are EXTRACTED from the current counter/src/lib.rs (block between the
//! C14D markers) and decided for every k-mer, thread count >= 1 (the index is only
//! evaluated inside the per-thread loop), data size and memory ceiling.
#![allow(dead_code, unused_variables, unused_parens)]
use crate::verif_support::*;
use std::cmp::{max, min};

struct Me {
    n_parts: u64,
    threads: usize,
    debug: bool,
    memory_ceil_gb: f64,
}
struct Stats {
    total_length: usize,
    seq_count: usize,
}

// ---- C14D: extracted from counter/src/lib.rs ----
/*@@C14D@@*/
// ---- end of extracted block ----

pub fn c14d_body() {
    let threads = any_usize();
    assume(threads >= 1 && threads <= (1usize << 16));
    let debug = any_bool();
    let total_length = any_usize();
    assume(total_length <= (1usize << 50));
    // memory ceiling: any positive whole number of GB up to 2^20, or a fraction k/16 of a GB
    let sixteenths = any_u32();
    assume(sixteenths >= 1 && sixteenths <= (1u32 << 24));
    let memory_ceil_gb = sixteenths as f64 / 16.0;
    let mut me = Me { n_parts: 0, threads, debug, memory_ceil_gb };
    let stats = Stats { total_length, seq_count: 0 };
    me.n_parts = n_parts_of(&me, &stats);
    check!(me.n_parts >= 1, "C14: the counter would run with zero partitions (the partition index takes a remainder by zero)");
    let table_len = table_len_of(&me);
    let min_mer = any_u64();
    let idx = index_of(&me, min_mer);
    check!(idx < table_len, "C14: the partition index of the counter lies outside the partition table");
    cover!(me.n_parts > threads as u64, "req: more partitions than threads");
    cover!(me.n_parts == 1, "req: single partition");
    cover!(true, "req: end of harness reached");
}
