//! C13 (cgr) — the Python CGR equals the whole-sequence CGR and fails on
//! exactly the same inputs.  Child module of pybindings::cgr.
#![allow(dead_code)]
use super::CgrComputer;
use crate::verif_support::*;
use composition::cgr::verif_c11 as core_side;

/// Stand-in for pyo3's `PyValueError::new_err` (kani-compiler 0.68 crashes on the
/// real one).  The returned value is never inspected beyond `is_err()` and never dropped.
#[cfg(kani)]
pub fn new_err_stub<A>(_args: A) -> pyo3::PyErr
where
    A: pyo3::PyErrArguments + Send + Sync + 'static,
{
    core::mem::forget(_args);
    unsafe { core::mem::MaybeUninit::<pyo3::PyErr>::zeroed().assume_init() }
}

pub fn c13_cgr<const N: usize, const MASK: u32>() {
    let sz = any_u32();
    assume(sz >= 1 && sz <= (1u32 << 20));
    // a Python str reaches Rust as UTF-8: N symbolic characters; character i is a
    // two-byte character U+0080..=U+07FF if bit i of MASK is set, else ASCII (valid
    // UTF-8 by construction; concrete shape => concrete allocation sizes)
    let mut bytes = [0u8; 16];
    let mut len = 0usize;
    let nchars = N;
    let two_byte = MASK != 0;
    let mut i = 0;
    while i < N {
        if (MASK >> i) & 1 == 1 {
            let cp = any_u32();
            assume(cp >= 0x80 && cp <= 0x7ff);
            bytes[len] = 0xc0 | (cp >> 6) as u8;
            bytes[len + 1] = 0x80 | (cp & 0x3f) as u8;
            len += 2;
        } else {
            let b = any_u8();
            assume(b < 0x80);
            bytes[len] = b;
            len += 1;
        }
        i += 1;
    }
    let s = unsafe { String::from_utf8_unchecked(bytes[..len].to_vec()) };
    let py = CgrComputer::new(sz as usize);
    let core = core_side::mk(sz as f64);
    let r_core = core_side::vec_one(&core, &bytes[..len]);
    let r_py = py.vectorise_one(s);
    check!(r_py.is_ok() == r_core.is_ok(), "C13: Python CGR and core CGR disagree on accepting the record");
    if let (Ok(a), Ok(b)) = (&r_py, &r_core) {
        check!(a.len() == b.len(), "C13: Python CGR and core CGR differ in length");
        let p = any_usize();
        assume(p < 2 * N || N == 0);
        if p < a.len() && p < b.len() {
            check!(a[p].0.to_bits() == b[p].0.to_bits() && a[p].1.to_bits() == b[p].1.to_bits(), "C13: Python CGR point differs from the core CGR point");
        }
        cover!(a.len() == N, "opt: full-length accepted record");
    }
    cover!(r_py.is_err(), "opt: rejected record");
    
    if two_byte {
        check!(r_py.is_err(), "C13: a non-ASCII character is not treated as a bad nucleotide by the Python CGR");
    }
    cover!(true, "req: end of harness reached");
    core::mem::forget(r_py);
    core::mem::forget(r_core);
    core::mem::forget(py);
    core::mem::forget(core);
}
