//! C13 (cgr) — the Python CGR equals the whole-sequence CGR and fails on
//! exactly the same inputs.  Child module of pybindings::cgr.
#![allow(dead_code)]
use super::CgrComputer;
use crate::verif_support::*;
use composition::cgr::verif_c11 as core_side;

pub fn c13_cgr<const N: usize>() {
    let sz = any_u32();
    assume(sz >= 1 && sz <= (1u32 << 20));
    let mut bytes = [0u8; N];
    let mut i = 0;
    while i < N {
        let b = any_u8();
        assume(b < 0x80); // ASCII (a Python str reaches Rust as UTF-8; multi-byte characters are rejected byte-wise like any other byte)
        bytes[i] = b;
        i += 1;
    }
    let len = any_usize();
    assume(len <= N);
    let s = unsafe { String::from_utf8_unchecked(bytes[..len].to_vec()) };
    let py = CgrComputer::new(sz as usize);
    let core = core_side::mk(sz as f64);
    let r_core = core_side::vec_one(&core, &bytes[..len]);
    let r_py = py.vectorise_one(s);
    check!(r_py.is_ok() == r_core.is_ok(), "C13: Python CGR and core CGR disagree on accepting the record");
    if let (Ok(a), Ok(b)) = (&r_py, &r_core) {
        check!(a.len() == b.len(), "C13: Python CGR and core CGR differ in length");
        let p = any_usize();
        assume(p < N);
        if p < a.len() && p < b.len() {
            check!(a[p].0.to_bits() == b[p].0.to_bits() && a[p].1.to_bits() == b[p].1.to_bits(), "C13: Python CGR point differs from the core CGR point");
        }
        cover!(a.len() == N, "req: full-length accepted record");
    }
    cover!(r_py.is_err(), "req: rejected record");
    cover!(true, "req: end of harness reached");
    core::mem::forget(r_py);
    core::mem::forget(r_core);
    core::mem::forget(py);
    core::mem::forget(core);
}
