//! C13 (iterators) — the Python k-mer iterator yields what the core iterator
//! yields and stays valid after the string it was built from is gone and
//! after the object is moved.  Child module of pybindings::kmer.
#![allow(dead_code)]
use super::KmerGenerator;
use crate::verif_support::*;
use kmer::kmer::KmerGenerator as CoreKmerGenerator;

fn build(bytes: &[u8], k: usize) -> KmerGenerator {
    // the String is consumed by `new`; only the Arc inside the object keeps the bytes alive
    let s = unsafe { String::from_utf8_unchecked(bytes.to_vec()) };
    KmerGenerator::new(s, k)
}

pub fn c13_kmer_iter<const K: usize, const N: usize, const R: usize>() {
    let mut bytes = [0u8; N];
    let mut i = 0;
    while i < N {
        let b = any_u8();
        assume(b > 3 && b < 0x80);
        bytes[i] = b;
        i += 1;
    }
    let len = N; // concrete: the binding copies the string into a fresh allocation
    let mut py = build(&bytes[..len], K); // moved out of `build`
    let mut boxed = Box::new(py); // and moved again (heap), as pyo3 does when it allocates the object
    let mut core = CoreKmerGenerator::new(&bytes[..len], K);
    let mut items = 0usize;
    let mut r = 0;
    while r < R {
        let a = boxed._kg.next(); // body of __next__
        let b = core.next();
        check!(a == b, "C13: Python k-mer iterator yields a different item than the core iterator");
        if a.is_some() {
            items += 1;
        }
        r += 1;
    }
    cover!(items >= 2, "req: two or more k-mers");
    cover!(true, "req: end of harness reached");
    core::mem::forget(boxed);
}


/// Structural clause: after construction (the String is consumed) and two moves,
/// the inner core iterator walks exactly the object's own Arc-owned copy of the
/// string's bytes: same address, same length, same content as the input.  With C01
/// (the core iterator is right on every byte string) this gives "same tuples as the
/// core" for strings of any content of this length, and validity after the Python
/// string is gone.
pub fn c13_kmer_wiring<const K: usize, const N: usize>() {
    let mut bytes = [0u8; N];
    let mut i = 0;
    while i < N {
        let b = any_u8();
        assume(b < 0x80);
        bytes[i] = b;
        i += 1;
    }
    let py = build(&bytes[..N], K);
    let boxed = Box::new(py);
    let walked = kmer::kmer::verif_c13a::seq_of(&boxed._kg);
    let owned: &[u8] = &boxed._data;
    check!(walked.as_ptr() == owned.as_ptr() && walked.len() == owned.len(), "C13: the wrapped k-mer iterator does not walk the bytes the Python object owns");
    check!(owned.len() == N, "C13: the Python k-mer iterator owns a string of different length than the one given");
    let j = any_usize();
    assume(j < N);
    check!(owned[j] == bytes[j], "C13: the Python k-mer iterator owns different bytes than the string given");
    check!(boxed.ksize == K, "C13: the Python k-mer iterator stores a different k");
    cover!(true, "req: end of harness reached");
    core::mem::forget(boxed);
}
