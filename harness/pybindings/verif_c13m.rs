//! C13 (iterators) — the Python minimiser iterator yields what the core
//! iterator yields.  Child module of pybindings::min.
#![allow(dead_code)]
use super::MinimiserGenerator;
use crate::verif_support::*;
use kmer::minimiser::MinimiserGenerator as CoreMinimiserGenerator;

fn build(bytes: &[u8], w: usize, m: usize) -> MinimiserGenerator {
    let s = unsafe { String::from_utf8_unchecked(bytes.to_vec()) };
    MinimiserGenerator::new(s, w, m)
}

pub fn c13_min_iter<const W: usize, const M: usize, const N: usize, const R: usize>() {
    let mut bytes = [0u8; N];
    let mut i = 0;
    while i < N {
        let b = any_u8();
        assume(b > 3 && b < 0x80);
        bytes[i] = b;
        i += 1;
    }
    let py = build(&bytes[..N], W, M);
    let mut boxed = Box::new(py);
    let mut core = CoreMinimiserGenerator::new(&bytes[..N], W, M);
    let mut items = 0usize;
    let mut r = 0;
    while r < R {
        let a = boxed._mg.next(); // body of __next__
        let b = core.next();
        check!(a == b, "C13: Python minimiser iterator yields a different item than the core iterator");
        if a.is_some() {
            items += 1;
        }
        r += 1;
    }
    cover!(items >= 1, "req: at least one run");
    cover!(true, "req: end of harness reached");
    core::mem::forget(boxed);
}
