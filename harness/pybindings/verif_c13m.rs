//! C13 (iterators) — the Python minimiser iterator yields what the core
//! iterator yields.  Child module of pybindings::min.
#![allow(dead_code)]
use super::MinimiserGenerator;
use crate::verif_support::*;
use kmer::minimiser::MinimiserGenerator as CoreMinimiserGenerator;

fn build(bytes: &[u8], w: usize, m: usize) -> MinimiserGenerator {
    let s = unsafe { String::from_utf8_unchecked(bytes.to_vec()) };
    MinimiserGenerator::new(s, w, m)
}

pub fn c13_min_iter<const W: usize, const M: usize, const N: usize, const R: usize>() {
    let mut bytes = [0u8; N];
    let mut i = 0;
    while i < N {
        let b = any_u8();
        assume(b > 3 && b < 0x80);
        bytes[i] = b;
        i += 1;
    }
    let py = build(&bytes[..N], W, M);
    let mut boxed = Box::new(py);
    let mut core = CoreMinimiserGenerator::new(&bytes[..N], W, M);
    let mut items = 0usize;
    let mut r = 0;
    while r < R {
        let a = boxed._mg.next(); // body of __next__
        let b = core.next();
        check!(a == b, "C13: Python minimiser iterator yields a different item than the core iterator");
        if a.is_some() {
            items += 1;
        }
        r += 1;
    }
    cover!(items >= 1, "req: at least one run");
    cover!(true, "req: end of harness reached");
    core::mem::forget(boxed);
}


/// Structural clause (see verif_c13k::c13_kmer_wiring): the wrapped minimiser iterator
/// walks the object's own Arc-owned copy of the given bytes, with the given w and m
/// (C09 decides the core iterator itself).
pub fn c13_min_wiring<const W: usize, const M: usize, const N: usize>() {
    let mut bytes = [0u8; N];
    let mut i = 0;
    while i < N {
        let b = any_u8();
        assume(b < 0x80);
        bytes[i] = b;
        i += 1;
    }
    let py = build(&bytes[..N], W, M);
    let boxed = Box::new(py);
    let walked = kmer::minimiser::verif_c13b::seq_of(&boxed._mg);
    let owned: &[u8] = &boxed._data;
    check!(walked.as_ptr() == owned.as_ptr() && walked.len() == owned.len(), "C13: the wrapped minimiser iterator does not walk the bytes the Python object owns");
    check!(owned.len() == N, "C13: the Python minimiser iterator owns a string of different length than the one given");
    let j = any_usize();
    assume(j < N);
    check!(owned[j] == bytes[j], "C13: the Python minimiser iterator owns different bytes than the string given");
    check!(boxed.msize == M, "C13: the Python minimiser iterator stores a different m");
    // a fresh core iterator with the same parameters is in the same initial state: compare the first item
    let mut core = CoreMinimiserGenerator::new(&bytes[..N], W, M);
    let mut b2 = boxed;
    check!(b2._mg.next() == core.next(), "C13: Python minimiser iterator yields a different item than the core iterator");
    cover!(true, "req: end of harness reached");
    core::mem::forget(b2);
}
