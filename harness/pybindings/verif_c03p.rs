//! C03 (header clause, Python binding) — same obligation on pybindings::oligo::OligoComputer::get_header.
//! column order.  Child module of composition::oligo: executes the private
//! OligoComputer::get_header on a struct built from the real kmer_pos_maps.
#![allow(dead_code)]
use super::OligoComputer;
use crate::verif_support::*;
#[cfg(kani)]
use kmer::verif_shim::HashMap;
#[cfg(not(kani))]
use std::collections::HashMap;

/*@@TABLES@@*/

/// Binding struct built from the tables of a native run of the real kmer_pos_maps(k).
pub fn mk_computer(k: usize, rank: &[usize], inv: &[u64], kcount: usize) -> OligoComputer {
    let mut pos_kmer = HashMap::new();
    let mut p = 0;
    while p < inv.len() {
        if inv[p] != u64::MAX {
            pos_kmer.insert(p, inv[p]);
        }
        p += 1;
    }
    OligoComputer { ksize: k, kcount, pos_map: rank.to_vec(), pos_kmer }
}

/// The binding's constructor (plain Rust, no interpreter) run inside the solver
/// produces exactly those tables (k = 1 only: concrete execution of
/// kmer_pos_maps under CBMC is slow).
pub fn c03_pynew<const K: usize>(rank: &[usize], inv: &[u64], kcount: usize) {
    let oc = OligoComputer::new(K);
    check!(oc.ksize == K && oc.kcount == kcount, "C03: binding constructor stores a different k / column count");
    check!(oc.pos_map.len() == rank.len(), "C03: binding constructor stores a rank table of different length");
    let mut i = 0;
    while i < rank.len() {
        if i < oc.pos_map.len() {
            check!(oc.pos_map[i] == rank[i], "C03: binding constructor stores a different rank table");
        }
        i += 1;
    }
    let mut p = 0;
    while p < inv.len() {
        check!(oc.pos_kmer.get(&p).copied() == Some(inv[p]), "C03: binding constructor stores a different index-to-k-mer table");
        p += 1;
    }
    cover!(true, "req: end of harness reached");
    core::mem::forget(oc);
}

/// header[p] must be the text of the p-th canonical k-mer in increasing code
/// order, for EVERY column p (`ocanon` = compiler-evaluated oracle list of the
/// canonical codes, verif_support::OCANON_K*).  get_header has no input besides
/// the tables, so the columns are walked by a concrete loop.
pub fn c03_pyheader<const K: usize>(rank: &[usize], inv: &[u64], kcount: usize, ocanon: &[u64]) {
    let oc = mk_computer(K, rank, inv, kcount);
    let h = oc.get_header();
    check!(h.len() == ocanon.len(), "C03: header does not have one name per canonical k-mer");
    let mut p = 0usize;
    while p < ocanon.len() {
        if p < h.len() {
            let name = h[p].as_bytes();
            check!(name.len() == K, "C03: a header name does not have k letters");
            let mut v = 0u64;
            let mut ok = true;
            let mut j = 0;
            while j < K {
                if j < name.len() {
                    let c = name[j];
                    if !(c == b'A' || c == b'C' || c == b'G' || c == b'T') {
                        ok = false;
                    }
                    v = v * 4 + (code(c) as u64 & 3);
                }
                j += 1;
            }
            check!(ok, "C03: a header name contains a letter outside ACGT");
            check!(v == ocanon[p], "C03: header name of a column is not the column's canonical k-mer (column order)");
        }
        p += 1;
    }
    cover!(h.len() >= 2, "req: two or more columns");
    cover!(true, "req: end of harness reached");
    core::mem::forget(h);
    core::mem::forget(oc);
}


/*@@PYHEADERS@@*/

/// k = 4..=7: the binding's header vector is dumped by a NATIVE run of its real
/// `new(k)` + `get_header()`; the solver decides, for a symbolic column, that the
/// dumped name is the text of the p-th canonical k-mer.
pub fn c03_pyheader_dump<const K: usize>(names: &'static [[u8; K]], ocanon: &[u64]) {
    check!(names.len() == ocanon.len(), "C03: header does not have one name per canonical k-mer");
    let p = any_usize();
    assume(p < ocanon.len());
    if p < names.len() {
        let name = &names[p];
        let mut v = 0u64;
        let mut ok = true;
        let mut j = 0;
        while j < K {
            let c = name[j];
            if !(c == b'A' || c == b'C' || c == b'G' || c == b'T') {
                ok = false;
            }
            v = v * 4 + (code(c) as u64 & 3);
            j += 1;
        }
        check!(ok, "C03: a header name contains a letter outside ACGT");
        check!(v == ocanon[p], "C03: header name of a column is not the column's canonical k-mer (column order)");
    }
    cover!(p > 0, "req: a column other than the first");
    cover!(true, "req: end of harness reached");
}
