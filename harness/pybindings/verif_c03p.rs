//! C03 (header clause, Python binding) — same obligation on pybindings::oligo::OligoComputer::get_header.
//! column order.  Child module of composition::oligo: executes the private
//! OligoComputer::get_header on a struct built from the real kmer_pos_maps.
#![allow(dead_code)]
use super::OligoComputer;
use crate::verif_support::*;

pub fn mk_computer(k: usize, _norm: bool) -> OligoComputer {
    // the binding's constructor is plain Rust (no interpreter involved)
    OligoComputer::new(k)
}

/// header[p] must be the text of the p-th canonical k-mer in increasing code
/// order.  The p-th canonical code is recomputed here by counting (oracle).
pub fn c03_pyheader<const K: usize>() {
    let oc = mk_computer(K, true);
    let h = oc.get_header();
    let total = pow4(K);
    // oracle: number of canonical codes
    let mut ncanon = 0usize;
    let mut z = 0u64;
    while z < total {
        if z <= rc_code_oracle(z, K) {
            ncanon += 1;
        }
        z += 1;
    }
    check!(h.len() == ncanon, "C03: header does not have one name per canonical k-mer");
    let p = any_usize();
    assume(p < ncanon);
    // p-th canonical code (oracle)
    let mut seen = 0usize;
    let mut cp = 0u64;
    let mut z = 0u64;
    while z < total {
        if z <= rc_code_oracle(z, K) {
            if seen == p {
                cp = z;
            }
            seen += 1;
        }
        z += 1;
    }
    if p < h.len() {
        let name = h[p].as_bytes();
        check!(name.len() == K, "C03: a header name does not have k letters");
        let mut v = 0u64;
        let mut ok = true;
        let mut j = 0;
        while j < K {
            if j < name.len() {
                let c = name[j];
                if !(c == b'A' || c == b'C' || c == b'G' || c == b'T') {
                    ok = false;
                }
                v = v * 4 + (code(c) as u64 & 3);
            }
            j += 1;
        }
        check!(ok, "C03: a header name contains a letter outside ACGT");
        check!(v == cp, "C03: header name of a column is not the column's canonical k-mer (column order)");
    }
    cover!(p > 0, "req: a column other than the first");
    cover!(true, "req: end of harness reached");
    core::mem::forget(h);
    core::mem::forget(oc);
}
