//! Native-only helper (child module of pybindings::oligo): the binding's header as Python
//! sees it - the REAL `OligoComputer::new(k)` + `get_header()` bodies (plain Rust, no
//! interpreter) - so that /verif can dump it for k = 4..=7.
#![allow(dead_code)]
#[cfg(not(kani))]
pub fn header_names(k: usize) -> Vec<String> {
    super::OligoComputer::new(k).get_header()
}
