//! C13 (oligo) — the Python binding's oligo vector and header equal the core's.
//! Child module of pybindings::oligo: executes the private #[pymethods] bodies
//! OligoComputer::{vectorise_one, get_header} (plain Rust, no interpreter) and
//! compares with composition::oligo::OligoComputer::vectorise_one (reached
//! through the injected composition::oligo::verif_c04 module).
#![allow(dead_code)]
use super::OligoComputer;
use crate::verif_support::*;
use composition::oligo::verif_c04 as core_side;
use kmer::numeric_to_kmer;
#[cfg(kani)]
use kmer::verif_shim::HashMap;
#[cfg(not(kani))]
use std::collections::HashMap;

/*@@TABLES@@*/

/// binding struct with the tables of the real kmer_pos_maps(k) (native run)
fn mk_py(k: usize, rank: &[usize], inv: &[u64], kcount: usize) -> OligoComputer {
    let mut pos_kmer = HashMap::new();
    let mut p = 0;
    while p < kcount {
        pos_kmer.insert(p, inv[p]);
        p += 1;
    }
    OligoComputer { ksize: k, kcount, pos_map: rank.to_vec(), pos_kmer }
}

/// Strings of exactly N symbolic characters; character i is a two-byte
/// character U+0080..=U+07FF if bit i of MASK is set, else ASCII 0x04..=0x7F
/// (valid UTF-8 by construction).  The shape is concrete per instance so that the
/// byte length - an allocation size in the code under test - is concrete.
pub fn c13_oligo_ascii<const K: usize, const N: usize, const MASK: u32>(rank: &[usize], inv: &[u64], kcount: usize) {
    let mut bytes = [0u8; 16];
    let mut len = 0usize;
    let mut i = 0;
    while i < N {
        if (MASK >> i) & 1 == 1 {
            let cp = any_u32();
            assume(cp >= 0x80 && cp <= 0x7ff);
            bytes[len] = 0xc0 | (cp >> 6) as u8;
            bytes[len + 1] = 0x80 | (cp & 0x3f) as u8;
            len += 2;
        } else {
            let b = any_u8();
            assume(b > 3 && b < 0x80);
            bytes[len] = b;
            len += 1;
        }
        i += 1;
    }
    let two_byte = MASK != 0;
    let norm = any_bool();
    let s = unsafe { String::from_utf8_unchecked(bytes[..len].to_vec()) };
    let py = mk_py(K, rank, inv, kcount);
    let core = core_side::mk(K, rank, kcount, norm);
    let v_core = core_side::vec_one(&core, &bytes[..len]);
    let v_py = py.vectorise_one(s, norm);
    check!(v_py.len() == v_core.len(), "C13: Python oligo vector and core row differ in length");
    let p = any_usize();
    assume(p < kcount);
    if p < v_py.len() && p < v_core.len() {
        check!(v_py[p].to_bits() == v_core[p].to_bits(), "C13: Python oligo vector differs from the core composition row");
    }
    cover!(p < v_py.len() && v_py[p] > 0.0, "req: non-zero entry compared");
    cover!(!two_byte || (p < v_py.len() && v_py[p] > 0.0), "opt: string with a two-byte character, non-zero entry");
    cover!(true, "req: end of harness reached");
    core::mem::forget(v_py);
    core::mem::forget(v_core);
    core::mem::forget(py);
    core::mem::forget(core);
}

/// fixed non-ASCII strings (WHICH selects one; concrete so that allocation sizes are
/// concrete): multi-byte characters must act as ambiguous bytes
pub fn c13_oligo_unicode<const K: usize, const WHICH: usize>(rank: &[usize], inv: &[u64], kcount: usize) {
    let norm = any_bool();
    let s: &str = match WHICH {
        0 => "AC\u{e9}GT",
        1 => "\u{20ac}ACGTA",
        2 => "AC\u{10348}CGT",
        _ => "ACGT\u{e9}",
    };
    let py = mk_py(K, rank, inv, kcount);
    let core = core_side::mk(K, rank, kcount, norm);
    let v_core = core_side::vec_one(&core, s.as_bytes());
    let v_py = py.vectorise_one(s.to_string(), norm);
    check!(v_py.len() == v_core.len(), "C13: Python oligo vector and core row differ in length");
    let p = any_usize();
    assume(p < kcount);
    if p < v_py.len() && p < v_core.len() {
        check!(v_py[p].to_bits() == v_core[p].to_bits(), "C13: Python oligo vector differs from the core composition row");
    }
    cover!(p < v_py.len() && v_py[p] > 0.0, "opt: non-zero entry compared");
    cover!(true, "req: end of harness reached");
    core::mem::forget(v_py);
    core::mem::forget(v_core);
    core::mem::forget(py);
    core::mem::forget(core);
}

/// header of the binding = names of the index-to-k-mer table as the core renders them
/// (numeric_to_kmer), for every column (concrete walk, byte-wise comparison)
pub fn c13_header<const K: usize>(rank: &[usize], inv: &[u64], kcount: usize) {
    let py = mk_py(K, rank, inv, kcount);
    let h = py.get_header();
    check!(h.len() == kcount, "C13: Python header length differs from the column count");
    let mut p = 0;
    while p < kcount {
        if p < h.len() {
            let want = numeric_to_kmer(inv[p], K);
            let a = h[p].as_bytes();
            let b = want.as_bytes();
            check!(a.len() == b.len(), "C13: Python header differs from the core header");
            let mut j = 0;
            while j < K {
                if j < a.len() && j < b.len() {
                    check!(a[j] == b[j], "C13: Python header differs from the core header");
                }
                j += 1;
            }
            core::mem::forget(want);
        }
        p += 1;
    }
    cover!(kcount >= 2, "req: two or more columns");
    cover!(true, "req: end of harness reached");
    core::mem::forget(h);
    core::mem::forget(py);
}
