//! C06 (narrow) — record numbering, copy-out and statistics of ktio::seq over
//! an arbitrary list of parsed records.  Real code executed:
//! Sequences::{new,next,seq_stats} (ktio/src/seq.rs).  The FASTA/FASTQ
//! *parser* is the `bio` crate, which Kani cannot compile: under cfg(kani) a
//! stand-in hands out a harness-controlled record list (no parsing modelled).
//! Native replay: the same records are serialised as well-formed single-line
//! FASTA / FASTQ text and read through the REAL bio parser.
#![allow(dead_code)]
use crate::seq::{SeqFormat, Sequences};
use crate::verif_support::*;

pub fn c06_numbering<const R: usize, const L: usize>() {
    #[cfg(kani)]
    use bio::io::{feed, RawRecord};
    let fastq = any_bool();
    let nrec = any_usize();
    assume(nrec <= R);
    let mut ids = [[0u8; 2]; R];
    let mut seqs = [[0u8; L]; R];
    let mut lens = [0usize; R];
    #[cfg(kani)]
    let mut recs: Vec<RawRecord> = Vec::new();
    #[cfg(not(kani))]
    let mut text: Vec<u8> = Vec::new();
    let mut total = 0usize;
    let mut i = 0;
    while i < R {
        if i < nrec {
            let a = any_u8();
            let b = any_u8();
            assume(a >= 0x21 && a < 0x7f && b >= 0x21 && b < 0x7f);
            ids[i] = [a, b];
            let l = any_usize();
            assume(l <= L); // records with no bases are allowed (FASTA)
            assume(l >= 1 || !fastq);
            lens[i] = l;
            let mut j = 0;
            while j < L {
                let c = any_u8();
                assume((c >= b'A' && c <= b'Z') || (c >= b'a' && c <= b'z'));
                seqs[i][j] = c;
                j += 1;
            }
            total += l;
            #[cfg(kani)]
            recs.push(RawRecord { id: unsafe { String::from_utf8_unchecked(ids[i].to_vec()) }, seq: seqs[i][..l].to_vec() });
            #[cfg(not(kani))]
            {
                text.push(if fastq { b'@' } else { b'>' });
                text.extend_from_slice(&ids[i]);
                text.extend_from_slice(b" description\n");
                text.extend_from_slice(&seqs[i][..l]);
                text.push(b'\n');
                if fastq {
                    text.extend_from_slice(b"+\n");
                    text.extend(std::iter::repeat(b'I').take(l));
                    text.push(b'\n');
                }
            }
        }
        i += 1;
    }
    let format = if fastq { SeqFormat::Fastq } else { SeqFormat::Fasta };
    #[cfg(kani)]
    let input: &[u8] = {
        feed(recs);
        &[]
    };
    #[cfg(not(kani))]
    let input: &[u8] = &text[..];
    let mut it = Sequences::new(format, input).unwrap();
    let mut i = 0;
    while i < R {
        if i < nrec {
            let item = it.next();
            check!(item.is_some(), "C06: a record is not returned (iteration ends early)");
            if let Some(s) = item {
                check!(s.n == i, "C06: records are not numbered 0,1,2,... without gaps");
                check!(s.id.as_bytes() == &ids[i][..], "C06: id is not copied out unchanged");
                check!(s.seq.len() == lens[i], "C06: bases are not copied out unchanged (length)");
                let j = any_usize();
                assume(j < L);
                if j < lens[i] && j < s.seq.len() {
                    check!(s.seq[j] == seqs[i][j], "C06: bases are not copied out unchanged");
                }
                core::mem::forget(s);
            }
        }
        i += 1;
    }
    check!(it.next().is_none(), "C06: a record is returned more than once / after the end");
    let st = Sequences::seq_stats(format, input);
    check!(st.seq_count == nrec, "C06: statistics record count differs from what iteration delivers");
    check!(st.total_length == total, "C06: statistics total bases differ from what iteration delivers");
    cover!(nrec == R && fastq, "req: full list, FASTQ branch");
    cover!(nrec == R && !fastq, "req: full list, FASTA branch");
    cover!(nrec >= 2 && lens[0] == 0, "req: record with no bases");
    cover!(true, "req: end of harness reached");
    core::mem::forget(it);
}

