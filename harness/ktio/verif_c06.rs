//! C06 (narrow) — record numbering, copy-out and statistics of ktio::seq over
//! an arbitrary list of parsed records.  Real code executed:
//! Sequences::{new,next,seq_stats} (ktio/src/seq.rs).  The FASTA/FASTQ
//! *parser* is the `bio` crate, which Kani cannot compile: under cfg(kani) a
//! stand-in hands out a harness-controlled record list (no parsing modelled).
//! Native replay: the same records are serialised as well-formed single-line
//! FASTA / FASTQ text and read through the REAL bio parser.
#![allow(dead_code, unused_variables, unused_mut)]
use crate::seq::{SeqFormat, Sequences};
use crate::verif_support::*;

const MAX_SEQ: usize = 8;

/// R records (concrete); record i has (i * 2 + FIRST) % (L + 1) bases (concrete
/// lengths: the real code copies id and bases into fresh allocations, and
/// symbolic allocation sizes are very costly); ids, bases and format symbolic.
pub fn c06_numbering<const R: usize, const L: usize, const FIRST: usize>() {
    let fastq = any_bool();
    let mut ids = [[0u8; 2]; R];
    let mut seqs = [[0u8; MAX_SEQ]; R];
    let mut lens = [0usize; R];
    #[cfg(not(kani))]
    let mut text: Vec<u8> = Vec::new();
    let mut total = 0usize;
    let mut has_empty = false;
    let mut i = 0;
    while i < R {
        let a = any_u8();
        let b = any_u8();
        assume(a >= 0x21 && a < 0x7f && b >= 0x21 && b < 0x7f);
        ids[i] = [a, b];
        let l = (i * 2 + FIRST) % (L + 1); // records with no bases are allowed (FASTA)
        if l == 0 {
            has_empty = true;
        }
        lens[i] = l;
        let mut j = 0;
        while j < L {
            let c = any_u8();
            assume((c >= b'A' && c <= b'Z') || (c >= b'a' && c <= b'z'));
            seqs[i][j] = c;
            j += 1;
        }
        total += l;
        #[cfg(not(kani))]
        {
            text.push(if fastq { b'@' } else { b'>' });
            text.extend_from_slice(&ids[i]);
            text.extend_from_slice(b" description\n");
            text.extend_from_slice(&seqs[i][..l]);
            text.push(b'\n');
            if fastq {
                text.extend_from_slice(b"+\n");
                text.extend(std::iter::repeat(b'I').take(l));
                text.push(b'\n');
            }
        }
        i += 1;
    }
    assume(!(has_empty && fastq)); // bio rejects FASTQ records without bases
    let format = if fastq { SeqFormat::Fastq } else { SeqFormat::Fasta };
    #[cfg(kani)]
    let input: &[u8] = {
        bio::io::feed(R, &ids, &seqs, &lens);
        &[]
    };
    #[cfg(not(kani))]
    let input: &[u8] = &text[..];
    let mut it = Sequences::new(format, input).unwrap();
    let mut i = 0;
    while i < R {
        let item = it.next();
        check!(item.is_some(), "C06: a record is not returned (iteration ends early)");
        if let Some(s) = item {
            check!(s.n == i, "C06: records are not numbered 0,1,2,... without gaps");
            check!(s.id.as_bytes() == &ids[i][..], "C06: id is not copied out unchanged");
            check!(s.seq.len() == lens[i], "C06: bases are not copied out unchanged (length)");
            let mut j = 0;
            while j < L {
                if j < lens[i] && j < s.seq.len() {
                    check!(s.seq[j] == seqs[i][j], "C06: bases are not copied out unchanged");
                }
                j += 1;
            }
            core::mem::forget(s);
        }
        i += 1;
    }
    check!(it.next().is_none(), "C06: a record is returned more than once / after the end");
    let st = Sequences::seq_stats(format, input);
    check!(st.seq_count == R, "C06: statistics record count differs from what iteration delivers");
    check!(st.total_length == total, "C06: statistics total bases differ from what iteration delivers");
    cover!(fastq, "opt: FASTQ branch");
    cover!(!fastq, "req: FASTA branch");
    cover!(true, "req: end of harness reached");
    core::mem::forget(it);
}
