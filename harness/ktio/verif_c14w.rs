//! C14 (b) — contract of ktio::mmap::MMWriter::write_at: the copy stays in
//! the slice and writes exactly the given bytes iff pos + len <= capacity.
#![allow(dead_code)]
use crate::mmap::MMWriter;
use crate::verif_support::*;

pub fn c14_mmwriter<const CAP: usize, const L: usize>() {
    let mut buf: [u8; CAP] = any_bytes::<CAP>();
    let before = buf;
    let data: [u8; L] = any_bytes::<L>();
    let len = any_usize();
    let pos = any_usize();
    assume(len >= 1 && len <= L);
    assume(pos <= CAP && len <= CAP - pos); // caller contract: pos + len <= capacity
    {
        let w: MMWriter<u8> = MMWriter::new(&mut buf[..]);
        unsafe {
            w.write_at(&data[..len], pos);
        }
    }
    let i = any_usize();
    assume(i < CAP);
    if i >= pos && i < pos + len {
        check!(buf[i] == data[i - pos], "C14: write_at does not store the given bytes at the given position");
    } else {
        check!(buf[i] == before[i], "C14: write_at modifies bytes outside [pos, pos+len)");
    }
    cover!(pos + len == CAP, "req: write ending exactly at the end of the buffer");
    cover!(true, "req: end of harness reached");
}

/// Characterisation (EXPECTED to fail): only the first byte is bounds-checked,
/// so a caller whose arithmetic is off by some bytes writes past the mapping.
pub fn c14_mmwriter_unchecked_tail<const CAP: usize, const L: usize>() {
    let mut buf: [u8; CAP] = [0u8; CAP];
    let data: [u8; L] = any_bytes::<L>();
    let len = any_usize();
    let pos = any_usize();
    assume(len >= 1 && len <= L);
    assume(pos < CAP && len > CAP - pos); // first byte inside, tail outside
    let w: MMWriter<u8> = MMWriter::new(&mut buf[..]);
    unsafe {
        w.write_at(&data[..len], pos);
    }
    cover!(true, "req: end of harness reached");
}
