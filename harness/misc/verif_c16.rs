//! C16 (kernel) — the per-record minimiser kernel of the `min` subcommands ends
//! cleanly on degenerate records.  Child module of misc::minimisers.
//! The way bin_sequences / seq_to_min construct the generator for each record
//! (`if wsize == 0 { .. } else { .. }`) is EXTRACTED from the current source text
//! of misc/src/minimisers.rs (block between the C16 markers) and executed with the
//! real MinimiserGenerator on every record of length 0..=N: no panic (Kani's
//! overflow / bounds / unwrap checks are the assertions) and no placeholder value.
#![allow(dead_code, unused_variables)]
use crate::verif_support::*;
use kmer::minimiser::MinimiserGenerator;

pub struct Rec<'a> {
    pub seq: &'a [u8],
}

// ---- C16: extracted from misc/src/minimisers.rs ----
/*@@C16SITES@@*/
// ---- end of extracted block ----

/// M concrete; W = 0 (whole-record window) or a window > M; N = record length
/// (concrete per instance, so that the window size of the w = 0 case is concrete).
/// SITE selects the call site (0 = bin_sequences, 1 = seq_to_min).
pub fn c16_min_kernel<const W: usize, const M: usize, const N: usize, const SITE: usize, const R: usize>() {
    let seq: [u8; N] = any_seq::<N>();
    let len = N;
    let record = Rec { seq: &seq[..len] };
    let wsize = W;
    let msize = M;
    let mut mgen = if SITE == 0 { site0(&record, wsize, msize) } else { site1(&record, wsize, msize) };
    // R = (largest possible number of runs) + 1 calls; the last one must be None
    let mut items = 0usize;
    let mut last_none = false;
    let mut r = 0;
    while r < R {
        match mgen.next() {
            Some((k, s, e)) => {
                check!(k != u64::MAX, "C16: a placeholder value is emitted as if it were a minimiser");
                check!(s < e && e <= len, "C16: an emitted run does not lie inside the record");
                items += 1;
                last_none = false;
            }
            None => {
                last_none = true;
            }
        }
        r += 1;
    }
    check!(last_none, "C16: the per-record minimiser iterator does not end");
    cover!(items >= 1, "opt: at least one run");
    cover!(true, "req: end of harness reached");
}
