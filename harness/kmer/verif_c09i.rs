//! C09 as ONE INDUCTIVE STEP (child module of kmer::minimiser).
//!
//! Pre-state: ANY iterator state over a sequence s (|s| <= N) that satisfies the
//! functional invariant `inv` below (it says what every field means in terms of
//! s and the position).  One `next()` on the real code must then
//!   (1) return exactly the first maximal run of the ORACLE whose end is not
//!       before the current position (or None if there is none), and
//!   (2) leave a state that satisfies `inv` again.
//! With the base case (`new` satisfies `inv`) this gives, by induction over the
//! number of calls, that the iterator yields exactly the oracle's runs in order
//! for every sequence of at most N bytes — call histories of any length.
#![allow(dead_code)]
use super::verif_c18s::{build, read, MState, BCAP};
use super::MinimiserGenerator;
use crate::verif_support::*;

/// canonical m-mer of s[q..q+M] (all clean)
pub fn canon_at<const M: usize>(s: &[u8], q: usize) -> u64 {
    let w = &s[q..q + M];
    let f = fwd_code(w);
    let r = rev_code(w);
    if f < r {
        f
    } else {
        r
    }
}

/// minimiser of the window s[st..st+W] (all clean)
pub fn window_min<const W: usize, const M: usize>(s: &[u8], st: usize) -> u64 {
    let mut mn = u64::MAX;
    let mut p = 0usize;
    while p + M <= W {
        let c = canon_at::<M>(s, st + p);
        if c < mn {
            mn = c;
        }
        p += 1;
    }
    mn
}

/// number of consecutive clean bases ending right before position p
pub fn clean_run<const N: usize>(s: &[u8], p: usize) -> usize {
    let mut c = 0usize;
    let mut stop = false;
    let mut j = 0usize;
    while j < N {
        if j < p && !stop {
            if code(s[p - 1 - j]) < 4 {
                c += 1;
            } else {
                stop = true;
            }
        }
        j += 1;
    }
    c
}

/// The functional invariant: what each field means at a loop top / between calls.
/// c = number of clean bases since the last ambiguous byte (or the start).
pub fn inv<const W: usize, const M: usize, const N: usize>(st: &MState, s: &[u8]) -> bool {
    let len = s.len();
    let cap = W - M + 1;
    let p = st.pos;
    if p > len || st.buff_len > cap {
        return false;
    }
    let c = clean_run::<N>(s, p);
    // (I1) m-mer length counter
    if st.m_val_l != (if c < M - 1 { c } else { M - 1 }) {
        return false;
    }
    // (I2) rolling forward / reverse codes hold the last min(c, M) bases
    let held = if c < M { c } else { M };
    let mut f = 0u64;
    let mut r = 0u64;
    let mut j = 0usize;
    while j < M {
        if j < held {
            let d = code(s[p - 1 - j]) as u64;
            f |= d << (2 * j);
            r |= (3 - d) << (2 * (M - 1 - j));
        }
        j += 1;
    }
    if st.m_val_f != f || st.m_val_r != r {
        return false;
    }
    // (I3) the buffer holds the canonical m-mers of the last buff_len m-mer positions
    let want_len = if c + 1 <= M { 0 } else if c - M + 1 < cap { c - M + 1 } else { cap };
    if st.buff_len != want_len {
        return false;
    }
    let mut i = 0usize;
    while i < BCAP {
        if i < st.buff_len {
            let q = p - M - (st.buff_len - 1 - i);
            if st.buff[i] != canon_at::<M>(s, q) {
                return false;
            }
        }
        i += 1;
    }
    let stretch_start = p - c;
    if st.buff_len < cap {
        // no full window yet in this stretch
        return st.m_active == u64::MAX && st.buff_pos == 0 && st.m_window_start == stretch_start;
    }
    if st.m_active == u64::MAX {
        // terminal state: the last run was flushed at the end of the sequence
        return p == len;
    }
    // (I4) a run is open: minimum of the buffer, first index of it
    let mut mn = u64::MAX;
    let mut first = 0usize;
    let mut i = 0usize;
    while i < BCAP {
        if i < cap && st.buff[i] < mn {
            mn = st.buff[i];
            first = i;
        }
        i += 1;
    }
    if st.m_active != mn || st.buff_pos != first {
        return false;
    }
    // (I5) the open run starts at m_window_start: every window from there to the current one
    // has this minimiser, and the run is maximal to the left
    let cur = p - W; // start of the window that ends at p-1
    if st.m_window_start < stretch_start || st.m_window_start > cur {
        return false;
    }
    let mut ok = true;
    let mut t = 0usize;
    while t + W <= N {
        if t >= st.m_window_start && t <= cur && window_min::<W, M>(s, t) != mn {
            ok = false;
        }
        t += 1;
    }
    if st.m_window_start > stretch_start && window_min::<W, M>(s, st.m_window_start - 1) == mn {
        ok = false;
    }
    ok
}

pub fn any_state() -> MState {
    let mut buff = [0u64; BCAP];
    let mut i = 0;
    while i < BCAP {
        buff[i] = any_u64();
        i += 1;
    }
    MState {
        pos: any_usize(),
        m_window_start: any_usize(),
        m_window_end: any_usize(),
        m_val_f: any_u64(),
        m_val_r: any_u64(),
        m_val_l: any_usize(),
        m_active: any_u64(),
        buff,
        buff_len: any_usize(),
        buff_pos: any_usize(),
    }
}

/// Oracle: the first maximal run whose end is >= p (runs computed over the whole sequence).
fn first_run_from<const W: usize, const M: usize, const N: usize>(s: &[u8], p: usize) -> Option<(u64, usize, usize)> {
    let len = s.len();
    let mut res: Option<(u64, usize, usize)> = None;
    let mut open = false;
    let mut cur = (0u64, 0usize, 0usize);
    let mut st = 0usize;
    while st + W <= N {
        let valid = st + W <= len && all_clean(&s[st..st + W]);
        if valid {
            let mn = window_min::<W, M>(s, st);
            if open && cur.0 == mn {
                cur.2 = st + W;
            } else {
                if open && res.is_none() && cur.2 >= p {
                    res = Some(cur);
                }
                cur = (mn, st, st + W);
                open = true;
            }
        } else {
            if open && res.is_none() && cur.2 >= p {
                res = Some(cur);
            }
            open = false;
        }
        st += 1;
    }
    if open && res.is_none() && cur.2 >= p {
        res = Some(cur);
    }
    res
}

/// W, M concrete (W - M + 1 <= BCAP); N = max sequence length (symbolic length <= N).
pub fn c09_step<const W: usize, const M: usize, const N: usize>() {
    let seq: [u8; N] = any_seq::<N>();
    let len = any_usize();
    assume(len <= N);
    let s = &seq[..len];
    let st = any_state();
    assume(inv::<W, M, N>(&st, s));

    #[cfg(not(kani))]
    {
        // Native replay: the symbolic pre-state may be unreachable (invariant too weak), so it
        // is not evidence by itself; confirmed only if the REAL iterator, started by `new`,
        // disagrees with the oracle's run list on this sequence.
        let mut g = MinimiserGenerator::new(s, W, M);
        let mut p = 0usize;
        let mut i = 0;
        while i < N + 3 {
            let want = first_run_from::<W, M, N>(s, p);
            let got = g.next();
            check!(got == want, "C09: (from new) the iterator's runs differ from the maximal runs of same-minimiser windows");
            match got {
                Some((_, _, e)) => p = e + 1,
                None => {}
            }
            i += 1;
        }
        println!("REPLAY-INFO: inductive-step counterexample not confirmed by a real history on this sequence (pre-state may be unreachable)");
        return;
    }

    let terminal = st.buff_len == W - M + 1 && st.m_active == u64::MAX;
    let want = if terminal { None } else { first_run_from::<W, M, N>(s, st.pos) };
    let mut g = build(s, W, M, &st);
    let got = g.next();
    match (got, want) {
        (None, None) => {}
        (Some((gm, gs, ge)), Some((wm, ws, we))) => {
            check!(gm == wm, "C09: reported value is not the minimiser of the run's windows");
            check!(gs == ws, "C09: reported start is not the start of the run's first window");
            check!(ge == we, "C09: reported end is not the end of the run's last window");
        }
        (None, Some(_)) => {
            check!(false, "C09: a run of full windows is not reported (iterator ended early)");
        }
        (Some(_), None) => {
            check!(false, "C09: an item is emitted that corresponds to no run of full windows");
        }
    }
    let post = read(&g);
    check!(inv::<W, M, N>(&post, s), "C09: (inductive step) the state invariant is not re-established");
    cover!(got.is_some() && st.buff_len == W - M + 1, "req: a run is closed from a state with an open run");
    cover!(got.is_some() && st.buff_len == 0, "opt: a run is opened and closed within one call");
    cover!(got.is_none() && !terminal, "req: end of sequence reached without a run");
    cover!(true, "req: end of harness reached");
}

/// Base case: a freshly constructed iterator satisfies the invariant.
pub fn c09_base<const W: usize, const M: usize, const N: usize>() {
    let seq: [u8; N] = any_seq::<N>();
    let len = any_usize();
    assume(len <= N);
    let s = &seq[..len];
    let g = MinimiserGenerator::new(s, W, M);
    let st = read(&g);
    check!(inv::<W, M, N>(&st, s), "C09: (base case) the state invariant does not hold after new()");
    cover!(true, "req: end of harness reached");
}
