//! C13 helper (child module of kmer::minimiser): read access to the private slice
//! of a MinimiserGenerator.
#![allow(dead_code)]
pub fn seq_of<'a>(g: &super::MinimiserGenerator<'a>) -> &'a [u8] {
    g.seq
}
