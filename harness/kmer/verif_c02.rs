//! C02 — reverse complement and ACGT decoding are exact inverses; strands
//! symmetric.  Real code executed: KmerGenerator::rev_comp,
//! kmer::numeric_to_kmer, KmerGenerator::{new,next}.
#![allow(dead_code)]
use crate::kmer::KmerGenerator;
use crate::numeric_to_kmer;
use crate::verif_support::*;

/// (a) involution and (b) agreement with the text-level reverse complement,
/// for EVERY code x < 4^K (K concrete per instance).
pub fn c02_revcomp<const K: usize>() {
    let x = any_u64();
    assume(x < pow4(K));
    let r = KmerGenerator::rev_comp(x, K);
    check!(r < pow4(K), "C02: reverse complement is not a k-mer code (>= 4^k)");
    check!(r == rc_code_oracle(x, K), "C02: rev_comp differs from the code of the reverse-complemented text");
    let rr = KmerGenerator::rev_comp(r, K);
    check!(rr == x, "C02: reverse-complementing twice does not return the original code");
    cover!(r == x, "opt: palindromic k-mer");
    cover!(r != x, "req: non-palindromic k-mer");
    cover!(true, "req: end of harness reached");
}

/// (c) decoding to text gives exactly K letters over ACGT whose re-encoding is x.
pub fn c02_decode<const K: usize>() {
    let x = any_u64();
    assume(x < pow4(K));
    let s = numeric_to_kmer(x, K);
    let b = s.as_bytes();
    check!(b.len() == K, "C02: decoded text does not have exactly k letters");
    let mut v = 0u64;
    let mut j = 0;
    while j < K {
        if j < b.len() {
            let c = b[j];
            check!(c == b'A' || c == b'C' || c == b'G' || c == b'T', "C02: decoded text contains a letter outside ACGT");
            v = v * 4 + code(c) as u64;
        }
        j += 1;
    }
    check!(v == x, "C02: re-encoding the decoded text does not give the code back");
    cover!(x == pow4(K) - 1, "req: extreme code 4^k-1");
    cover!(true, "req: end of harness reached");
    core::mem::forget(s);
}

/// (d) strand symmetry of the k-mer stream: stream(rc(seq)) is stream(seq)
/// reversed with the strands swapped; second component = rev_comp(first).
/// N = max length, R = N - K + 2 calls of next() on each iterator.
pub fn c02_stream<const K: usize, const N: usize, const R: usize>() {
    let seq: [u8; N] = any_seq::<N>();
    let len = any_usize();
    assume(len <= N);
    let mut rcs = [0u8; N];
    let mut i = 0;
    while i < N {
        if i < len {
            rcs[i] = rc_byte(seq[len - 1 - i]);
        }
        i += 1;
    }
    let mut g1 = KmerGenerator::new(&seq[..len], K);
    let mut g2 = KmerGenerator::new(&rcs[..len], K);
    let mut o1: [Option<(u64, u64)>; R] = [None; R];
    let mut o2: [Option<(u64, u64)>; R] = [None; R];
    let mut n1 = 0usize;
    let mut n2 = 0usize;
    let mut r = 0;
    while r < R {
        o1[r] = g1.next();
        if o1[r].is_some() {
            n1 += 1;
        }
        o2[r] = g2.next();
        if o2[r].is_some() {
            n2 += 1;
        }
        r += 1;
    }
    check!(n1 < R && n2 < R, "C02: more k-mers than windows");
    check!(n1 == n2, "C02: a sequence and its reverse complement yield different numbers of k-mers");
    let mut j = 0;
    while j < R {
        if j < n1 && n1 == n2 {
            let (f, rv) = o1[j].unwrap();
            check!(rv == KmerGenerator::rev_comp(f, K), "C02: second component is not rev_comp of the first");
            check!(rv == rc_code_oracle(f, K), "C02: second component is not the reverse complement of the first");
            let (f2, r2) = o2[n1 - 1 - j].unwrap();
            check!(f2 == rv && r2 == f, "C02: stream of the reverse complement is not the reversed stream with strands swapped");
            let c1 = if f < rv { f } else { rv };
            let c2 = if f2 < r2 { f2 } else { r2 };
            check!(c1 == c2, "C02: canonical k-mers differ between a sequence and its reverse complement");
        }
        j += 1;
    }
    cover!(n1 >= 2, "req: two or more k-mers");
    cover!(true, "req: end of harness reached");
}
