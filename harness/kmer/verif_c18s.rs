//! C18 (inductive step) — state access for MinimiserGenerator.  Child module
//! of kmer::minimiser (sees the private fields).
#![allow(dead_code)]
use super::MinimiserGenerator;
#[cfg(not(kani))]
use std::collections::VecDeque;
#[cfg(kani)]
use crate::verif_shim::VecDeque;

pub const BCAP: usize = 4;

/// The part of the iterator state that both state machines share.
#[derive(Clone, Copy)]
pub struct MState {
    pub pos: usize,
    pub m_window_start: usize,
    pub m_window_end: usize,
    pub m_val_f: u64,
    pub m_val_r: u64,
    pub m_val_l: usize,
    pub m_active: u64,
    pub buff: [u64; BCAP],
    pub buff_len: usize,
    pub buff_pos: usize,
}

/// field-wise equality (a derived `==` on the array is a byte-wise memcmp loop)
pub fn same(a: &MState, b: &MState) -> bool {
    let mut eq = a.pos == b.pos
        && a.m_window_start == b.m_window_start
        && a.m_window_end == b.m_window_end
        && a.m_val_f == b.m_val_f
        && a.m_val_r == b.m_val_r
        && a.m_val_l == b.m_val_l
        && a.m_active == b.m_active
        && a.buff_len == b.buff_len
        && a.buff_pos == b.buff_pos;
    let mut i = 0;
    while i < BCAP {
        if i < a.buff_len && a.buff[i] != b.buff[i] {
            eq = false;
        }
        i += 1;
    }
    eq
}

pub fn fill(buff: &[u64; BCAP], len: usize, cap: usize) -> VecDeque<u64> {
    let mut q = VecDeque::with_capacity(cap);
    let mut i = 0;
    while i < BCAP {
        if i < len {
            q.push_back(buff[i]);
        }
        i += 1;
    }
    q
}

pub fn drain(q: &VecDeque<u64>) -> ([u64; BCAP], usize) {
    let mut b = [0u64; BCAP];
    let mut i = 0;
    while i < BCAP {
        if i < q.len() {
            b[i] = *q.get(i).unwrap();
        }
        i += 1;
    }
    (b, q.len())
}

/// A generator over `seq` in state `st` (constants as MinimiserGenerator::new sets them).
pub fn build<'a>(seq: &'a [u8], w: usize, m: usize, st: &MState) -> MinimiserGenerator<'a> {
    let mut g = MinimiserGenerator::new(seq, w, m);
    g.pos = st.pos;
    g.m_window_start = st.m_window_start;
    g.m_window_end = st.m_window_end;
    g.m_val_f = st.m_val_f;
    g.m_val_r = st.m_val_r;
    g.m_val_l = st.m_val_l;
    g.m_active = st.m_active;
    g.buff = fill(&st.buff, st.buff_len, w - m + 1);
    g.buff_pos = st.buff_pos;
    g
}

pub fn read(g: &MinimiserGenerator) -> MState {
    let (buff, buff_len) = drain(&g.buff);
    MState {
        pos: g.pos,
        m_window_start: g.m_window_start,
        m_window_end: g.m_window_end,
        m_val_f: g.m_val_f,
        m_val_r: g.m_val_r,
        m_val_l: g.m_val_l,
        m_active: g.m_active,
        buff,
        buff_len,
        buff_pos: g.buff_pos,
    }
}
