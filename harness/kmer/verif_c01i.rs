//! C01 as ONE INDUCTIVE STEP (child module of kmer::kmer; sees the private fields).
//!
//! Pre-state: ANY KmerGenerator state over a sequence s (|s| <= N) satisfying the
//! functional invariant below (what `len`, `fval`, `rval` mean in terms of s and
//! `pos`).  One `next()` on the real code must then return exactly the pair of the
//! first valid window that ENDS at or after `pos` (None if there is none) and leave
//! a state satisfying the invariant again.  With the base case (`new`) this gives,
//! by induction over the number of calls, exactly the valid windows, in order, for
//! every sequence of at most N bytes - call histories of any length.
#![allow(dead_code)]
use super::KmerGenerator;
use crate::verif_support::*;

/// number of consecutive clean bases ending right before position p
fn clean_run<const N: usize>(s: &[u8], p: usize) -> usize {
    let mut c = 0usize;
    let mut stop = false;
    let mut j = 0usize;
    while j < N {
        if j < p && !stop {
            if code(s[p - 1 - j]) < 4 {
                c += 1;
            } else {
                stop = true;
            }
        }
        j += 1;
    }
    c
}

/// c = clean bases since the last other byte: len = min(c, K-1); fval / rval hold the last min(c, K) bases
fn inv<const K: usize, const N: usize>(g: &KmerGenerator, s: &[u8]) -> bool {
    let p = g.pos;
    if p > s.len() || g.ksize != K {
        return false;
    }
    if g.mask != pow4(K) - 1 || g.shift != 2 * (K as u64 - 1) {
        return false;
    }
    let c = clean_run::<N>(s, p);
    if g.len != (if c < K - 1 { c } else { K - 1 }) {
        return false;
    }
    // while fewer than K clean bases have accumulated the rolling values may still carry bits of
    // bases before the last other byte (`len = 0` does not clear them): only the bits that the
    // next complete window will keep are specified
    let held = if c < K { c } else { K };
    let mut j = 0usize;
    let mut ok = true;
    while j < K {
        if j < held {
            let d = code(s[p - 1 - j]) as u64;
            if (g.fval >> (2 * j)) & 3 != d {
                ok = false;
            }
            if (g.rval >> (2 * (K - 1 - j))) & 3 != 3 - d {
                ok = false;
            }
        }
        j += 1;
    }
    // nothing above the k-mer in either value
    ok && g.fval <= g.mask && g.rval <= g.mask
}

/// the first valid window whose last base has index >= p
fn first_window_from<const K: usize, const N: usize>(s: &[u8], p: usize) -> Option<(u64, u64)> {
    let mut res = None;
    let mut e = 0usize;
    while e < N {
        if res.is_none() && e >= p && e < s.len() && e + 1 >= K && all_clean(&s[e + 1 - K..e + 1]) {
            let w = &s[e + 1 - K..e + 1];
            res = Some((fwd_code(w), rev_code(w)));
        }
        e += 1;
    }
    res
}

pub fn c01_step<const K: usize, const N: usize>() {
    let seq: [u8; N] = any_seq::<N>();
    let len = any_usize();
    assume(len <= N);
    let s = &seq[..len];
    let mut g = KmerGenerator::new(s, K);
    g.pos = any_usize();
    g.len = any_usize();
    g.fval = any_u64();
    g.rval = any_u64();
    assume(inv::<K, N>(&g, s));

    #[cfg(not(kani))]
    {
        // native replay: confirmed only by a real history (the real iterator from `new`)
        let mut h = KmerGenerator::new(s, K);
        let mut p = 0usize;
        let mut i = 0;
        while i < N + 2 {
            let want = first_window_from::<K, N>(s, p);
            let got = h.next();
            check!(got == want, "C01: (from new) the iterator's items differ from the valid windows in order");
            p = h.pos;
            i += 1;
        }
        println!("REPLAY-INFO: inductive-step counterexample not confirmed by a real history on this sequence (pre-state may be unreachable)");
        return;
    }

    let want = first_window_from::<K, N>(s, g.pos);
    let got = g.next();
    match (got, want) {
        (None, None) => {}
        (Some((gf, gr)), Some((wf, wr))) => {
            check!(gf == wf, "C01: forward code differs from the base-4 reading of the window");
            check!(gr == wr, "C01: reverse-strand code differs from the reverse complement of the window");
            check!(gf < pow4(K), "C01: forward code is not below 4^k");
            check!(gr == KmerGenerator::rev_comp(gf, K), "C02: second component is not rev_comp of the first");
        }
        (None, Some(_)) => {
            check!(false, "C01: a valid window is not yielded (iterator ended early)");
        }
        (Some(_), None) => {
            check!(false, "C01: an item is yielded that is not a valid window");
        }
    }
    check!(inv::<K, N>(&g, s), "C01: (inductive step) the state invariant is not re-established");
    cover!(got.is_some(), "req: a k-mer is yielded");
    cover!(got.is_none(), "req: end of sequence reached");
    cover!(true, "req: end of harness reached");
}

pub fn c01_base<const K: usize, const N: usize>() {
    let seq: [u8; N] = any_seq::<N>();
    let len = any_usize();
    assume(len <= N);
    let s = &seq[..len];
    let g = KmerGenerator::new(s, K);
    check!(inv::<K, N>(&g, s), "C01: (base case) the state invariant does not hold after new()");
    cover!(true, "req: end of harness reached");
}
