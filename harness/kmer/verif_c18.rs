//! C18 — the minimiser+k-mers iterator agrees with the plain minimiser
//! iterator and conserves all w-mers.  Real code executed:
//! KmerMinimiserGenerator::{new,next}, MinimiserGenerator::{new,next},
//! KmerGenerator::{new,next} (kmer crate), VecDeque queue model under cfg(kani).
#![allow(dead_code)]
use crate::kmer::KmerGenerator;
use crate::kmer_minimisers::KmerMinimiserGenerator;
use crate::minimiser::MinimiserGenerator;
use crate::verif_support::*;

/// W (<= 31), M concrete; N = buffer size; R = number of next() calls made
/// on each iterator (max number of runs + 2).
pub fn c18_core<const W: usize, const M: usize, const N: usize, const R: usize>(len: usize) {
    let seq: [u8; N] = any_seq::<N>();
    assume(len <= N);
    let s = &seq[..len];

    let mut plain = MinimiserGenerator::new(s, W, M);
    let mut withk = KmerMinimiserGenerator::new(s, W, M);
    // concatenation of the k-mer lists attached to the runs
    let mut cat = [0u64; N];
    let mut ncat = 0usize;
    let mut items = 0usize;
    let mut r = 0;
    while r < R {
        let a = plain.next();
        let b = withk.next();
        match (a, b) {
            (None, None) => {}
            (Some((m1, s1, e1)), Some((m2, s2, e2, ks))) => {
                check!(m1 == m2, "C18: minimiser of a run differs from the plain minimiser iterator");
                check!(s1 == s2, "C18: start of a run differs from the plain minimiser iterator");
                check!(e1 == e2, "C18: end of a run differs from the plain minimiser iterator");
                let mut j = 0;
                while j < ks.len() {
                    check!(ncat < N, "C18: more k-mers attached than the sequence has windows");
                    cat[ncat] = ks[j];
                    ncat += 1;
                    j += 1;
                }
                items += 1;
                core::mem::forget(ks);
            }
            (Some(_), None) => {
                check!(false, "C18: the k-mer reporting iterator ends before the plain minimiser iterator");
            }
            (None, Some(_)) => {
                check!(false, "C18: the k-mer reporting iterator yields a run the plain minimiser iterator does not have");
            }
        }
        r += 1;
    }

    // oracle: canonical W-mers of the valid windows, in order
    let mut n = 0usize;
    let mut kg = KmerGenerator::new(s, W);
    let mut start = 0usize;
    while start + W <= len {
        let w = &s[start..start + W];
        if all_clean(w) {
            let f = fwd_code(w);
            let rv = rev_code(w);
            let c = if f < rv { f } else { rv };
            check!(n < ncat, "C18: a valid window's w-mer is lost (not attached to any run)");
            check!(cat[n] == c, "C18: attached k-mers are not the canonical w-mers of the windows in order");
            // and the real k-mer iterator agrees
            let g = kg.next();
            check!(g.is_some(), "C18: real k-mer iterator yields fewer w-mers than the oracle");
            let (gf, gr) = g.unwrap();
            check!((if gf < gr { gf } else { gr }) == c, "C18: real k-mer iterator disagrees with the oracle");
            n += 1;
        }
        start += 1;
    }
    check!(n == ncat, "C18: a k-mer is attached that is no w-mer of a valid window");
    cover!(items >= 2, "opt: two or more runs");
    cover!(n >= 2, "opt: two or more w-mers");
    cover!(true, "req: end of harness reached");
}

pub fn c18_fixed<const W: usize, const M: usize, const N: usize, const R: usize>() {
    c18_core::<W, M, N, R>(N)
}
