//! C18 clause (1) as ONE INDUCTIVE STEP: from any pair of states in which the
//! k-mer reporting iterator and the plain minimiser iterator agree on their
//! shared fields (and a small validity invariant holds), one `next()` on each
//! yields the same (minimiser, start, end) and leaves them agreeing again, with
//! the invariant re-established.  Together with the base case (`new`) this
//! covers call histories of ANY length for sequences up to N bytes.
//! Child module of kmer::kmer_minimisers (sees the private fields).
#![allow(dead_code)]
use super::KmerMinimiserGenerator;
use crate::minimiser::verif_c18s::{build as build_plain, drain, fill, read as read_plain, same, MState, BCAP};
use crate::minimiser::MinimiserGenerator;
use crate::verif_support::*;

fn build_withk<'a>(seq: &'a [u8], w: usize, m: usize, st: &MState, k_val_f: u64, k_val_r: u64, k_val_l: usize) -> KmerMinimiserGenerator<'a> {
    let mut g = KmerMinimiserGenerator::new(seq, w, m);
    g.pos = st.pos;
    g.m_window_start = st.m_window_start;
    g.m_window_end = st.m_window_end;
    g.m_val_f = st.m_val_f;
    g.m_val_r = st.m_val_r;
    g.m_val_l = st.m_val_l;
    g.m_active = st.m_active;
    g.buff = fill(&st.buff, st.buff_len, w - m + 1);
    g.buff_pos = st.buff_pos;
    g.k_val_f = k_val_f;
    g.k_val_r = k_val_r;
    g.k_val_l = k_val_l;
    g
}

fn read_withk(g: &KmerMinimiserGenerator) -> MState {
    let (buff, buff_len) = drain(&g.buff);
    MState {
        pos: g.pos,
        m_window_start: g.m_window_start,
        m_window_end: g.m_window_end,
        m_val_f: g.m_val_f,
        m_val_r: g.m_val_r,
        m_val_l: g.m_val_l,
        m_active: g.m_active,
        buff,
        buff_len,
        buff_pos: g.buff_pos,
    }
}

/// Validity invariant of reachable states, in terms of c = number of clean
/// bases consumed since the last ambiguous byte (or the start):
///   m_val_l = min(c, m-1), k_val_l = min(c, w-1), buff_len = min(max(c-m+1, 0), w-m+1), pos >= c.
/// It is proved inductive by the same instances (base case + step), so no
/// reachable state is excluded; it only rules out states in which the real code
/// would underflow (`pos - wsize + 1`) or that no history produces.
fn inv(st: &MState, k_val_l: usize, len: usize, w: usize, m: usize) -> bool {
    let cap = w - m + 1;
    if st.pos > len || st.buff_len > cap {
        return false;
    }
    if st.buff_len == 0 {
        // c <= m-1
        st.m_val_l <= m - 1 && k_val_l == st.m_val_l && st.pos >= st.m_val_l && st.buff_pos == 0
    } else if st.buff_len < cap {
        // c = buff_len + m - 1 <= w - 1
        st.m_val_l == m - 1 && k_val_l == st.buff_len + m - 1 && st.pos >= st.buff_len + m - 1 && st.buff_pos == 0
    } else {
        // c >= w
        st.m_val_l == m - 1 && k_val_l == w - 1 && st.pos >= w && st.buff_pos < cap
    }
}

fn any_state() -> MState {
    let mut buff = [0u64; BCAP];
    let mut i = 0;
    while i < BCAP {
        buff[i] = any_u64();
        i += 1;
    }
    MState {
        pos: any_usize(),
        m_window_start: any_usize(),
        m_window_end: any_usize(),
        m_val_f: any_u64(),
        m_val_r: any_u64(),
        m_val_l: any_usize(),
        m_active: any_u64(),
        buff,
        buff_len: any_usize(),
        buff_pos: any_usize(),
    }
}

/// W, M concrete (W - M + 1 <= BCAP); N = max sequence length (symbolic length <= N).
pub fn c18_step<const W: usize, const M: usize, const N: usize>() {
    let seq: [u8; N] = any_seq::<N>();
    let len = any_usize();
    assume(len <= N);
    let s = &seq[..len];
    let st = any_state();
    let k_val_f = any_u64();
    let k_val_r = any_u64();
    let k_val_l = any_usize();
    assume(inv(&st, k_val_l, len, W, M));

    #[cfg(not(kani))]
    {
        // Native replay of an inductive-step counterexample: the symbolic pre-state may be
        // unreachable (invariant too weak), so it is NOT evidence by itself.  The violation
        // is confirmed only if the two REAL iterators, started by `new`, diverge on this sequence.
        let mut a = MinimiserGenerator::new(s, W, M);
        let mut b = KmerMinimiserGenerator::new(s, W, M);
        let mut i = 0;
        while i < N + 3 {
            let x = a.next();
            let y = b.next().map(|(m, st, en, _)| (m, st, en));
            check!(x == y, "C18: (from new) the k-mer reporting iterator and the plain minimiser iterator yield different runs");
            i += 1;
        }
        println!("REPLAY-INFO: inductive-step counterexample not confirmed by a real history on this sequence (pre-state may be unreachable)");
        return;
    }

    let mut plain = build_plain(s, W, M, &st);
    let mut withk = build_withk(s, W, M, &st, k_val_f, k_val_r, k_val_l);
    let a = plain.next();
    let b = withk.next();
    match (&a, &b) {
        (None, None) => {}
        (Some((m1, s1, e1)), Some((m2, s2, e2, _ks))) => {
            check!(*m1 == *m2, "C18: minimiser of a run differs from the plain minimiser iterator");
            check!(*s1 == *s2, "C18: start of a run differs from the plain minimiser iterator");
            check!(*e1 == *e2, "C18: end of a run differs from the plain minimiser iterator");
        }
        (Some(_), None) => {
            check!(false, "C18: the k-mer reporting iterator ends before the plain minimiser iterator");
        }
        (None, Some(_)) => {
            check!(false, "C18: the k-mer reporting iterator yields a run the plain minimiser iterator does not have");
        }
    }
    let pa = read_plain(&plain);
    let pb = read_withk(&withk);
    check!(same(&pa, &pb), "C18: after one step the two iterators no longer agree on their shared state (runs will diverge)");
    check!(inv(&pb, withk.k_val_l, len, W, M), "C18: (inductive step) validity invariant not re-established");
    cover!(a.is_some() && st.buff_len == W - M + 1, "req: a run is emitted from a state with a full buffer");
    cover!(a.is_none(), "req: end of sequence reached");
    cover!(a.is_some() && pb.buff_len == 0, "opt: run closed by an ambiguous byte");
    cover!(true, "req: end of harness reached");
    core::mem::forget(b);
}

/// Base case: freshly constructed iterators agree and satisfy the invariant.
pub fn c18_base<const W: usize, const M: usize, const N: usize>() {
    let seq: [u8; N] = any_seq::<N>();
    let len = any_usize();
    assume(len <= N);
    let s = &seq[..len];
    let plain = MinimiserGenerator::new(s, W, M);
    let withk = KmerMinimiserGenerator::new(s, W, M);
    let pa = read_plain(&plain);
    let pb = read_withk(&withk);
    check!(same(&pa, &pb), "C18: freshly constructed iterators do not agree on their shared state");
    check!(inv(&pb, withk.k_val_l, len, W, M), "C18: (base case) validity invariant does not hold after new()");
    cover!(true, "req: end of harness reached");
}
