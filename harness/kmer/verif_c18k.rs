//! C18 clause (1) as ONE INDUCTIVE STEP: from any pair of states in which the
//! k-mer reporting iterator and the plain minimiser iterator agree on their
//! shared fields (and a small validity invariant holds), one `next()` on each
//! yields the same (minimiser, start, end) and leaves them agreeing again, with
//! the invariant re-established.  Together with the base case (`new`) this
//! covers call histories of ANY length for sequences up to N bytes.
//! Child module of kmer::kmer_minimisers (sees the private fields).
#![allow(dead_code)]
use super::KmerMinimiserGenerator;
use crate::minimiser::verif_c18s::{build as build_plain, drain, fill, read as read_plain, same, MState, BCAP};
use crate::minimiser::MinimiserGenerator;
use crate::verif_support::*;

fn build_withk<'a>(seq: &'a [u8], w: usize, m: usize, st: &MState, k_val_f: u64, k_val_r: u64, k_val_l: usize) -> KmerMinimiserGenerator<'a> {
    let mut g = KmerMinimiserGenerator::new(seq, w, m);
    g.pos = st.pos;
    g.m_window_start = st.m_window_start;
    g.m_window_end = st.m_window_end;
    g.m_val_f = st.m_val_f;
    g.m_val_r = st.m_val_r;
    g.m_val_l = st.m_val_l;
    g.m_active = st.m_active;
    g.buff = fill(&st.buff, st.buff_len, w - m + 1);
    g.buff_pos = st.buff_pos;
    g.k_val_f = k_val_f;
    g.k_val_r = k_val_r;
    g.k_val_l = k_val_l;
    g
}

fn read_withk(g: &KmerMinimiserGenerator) -> MState {
    let (buff, buff_len) = drain(&g.buff);
    MState {
        pos: g.pos,
        m_window_start: g.m_window_start,
        m_window_end: g.m_window_end,
        m_val_f: g.m_val_f,
        m_val_r: g.m_val_r,
        m_val_l: g.m_val_l,
        m_active: g.m_active,
        buff,
        buff_len,
        buff_pos: g.buff_pos,
    }
}

/// Validity invariant of reachable states, in terms of c = number of clean
/// bases consumed since the last ambiguous byte (or the start):
///   m_val_l = min(c, m-1), k_val_l = min(c, w-1), buff_len = min(max(c-m+1, 0), w-m+1), pos >= c.
/// It is proved inductive by the same instances (base case + step), so no
/// reachable state is excluded; it only rules out states in which the real code
/// would underflow (`pos - wsize + 1`) or that no history produces.
fn inv(st: &MState, k_val_l: usize, len: usize, w: usize, m: usize) -> bool {
    let cap = w - m + 1;
    if st.pos > len || st.buff_len > cap {
        return false;
    }
    if st.buff_len == 0 {
        // c <= m-1
        st.m_val_l <= m - 1 && k_val_l == st.m_val_l && st.pos >= st.m_val_l && st.buff_pos == 0
    } else if st.buff_len < cap {
        // c = buff_len + m - 1 <= w - 1
        st.m_val_l == m - 1 && k_val_l == st.buff_len + m - 1 && st.pos >= st.buff_len + m - 1 && st.buff_pos == 0
    } else {
        // c >= w
        st.m_val_l == m - 1 && k_val_l == w - 1 && st.pos >= w && st.buff_pos < cap
    }
}

fn any_state() -> MState {
    let mut buff = [0u64; BCAP];
    let mut i = 0;
    while i < BCAP {
        buff[i] = any_u64();
        i += 1;
    }
    MState {
        pos: any_usize(),
        m_window_start: any_usize(),
        m_window_end: any_usize(),
        m_val_f: any_u64(),
        m_val_r: any_u64(),
        m_val_l: any_usize(),
        m_active: any_u64(),
        buff,
        buff_len: any_usize(),
        buff_pos: any_usize(),
    }
}

/// W, M concrete (W - M + 1 <= BCAP); N = max sequence length (symbolic length <= N).
pub fn c18_step<const W: usize, const M: usize, const N: usize>() {
    let seq: [u8; N] = any_seq::<N>();
    let len = any_usize();
    assume(len <= N);
    let s = &seq[..len];
    let st = any_state();
    let k_val_f = any_u64();
    let k_val_r = any_u64();
    let k_val_l = any_usize();
    assume(inv(&st, k_val_l, len, W, M));

    #[cfg(not(kani))]
    {
        // Native replay of an inductive-step counterexample: the symbolic pre-state may be
        // unreachable (invariant too weak), so it is NOT evidence by itself.  The violation
        // is confirmed only if the two REAL iterators, started by `new`, diverge on this sequence.
        let mut a = MinimiserGenerator::new(s, W, M);
        let mut b = KmerMinimiserGenerator::new(s, W, M);
        let mut i = 0;
        while i < N + 3 {
            let x = a.next();
            let y = b.next().map(|(m, st, en, _)| (m, st, en));
            check!(x == y, "C18: (from new) the k-mer reporting iterator and the plain minimiser iterator yield different runs");
            i += 1;
        }
        println!("REPLAY-INFO: inductive-step counterexample not confirmed by a real history on this sequence (pre-state may be unreachable)");
        return;
    }

    let mut plain = build_plain(s, W, M, &st);
    let mut withk = build_withk(s, W, M, &st, k_val_f, k_val_r, k_val_l);
    let a = plain.next();
    let b = withk.next();
    match (&a, &b) {
        (None, None) => {}
        (Some((m1, s1, e1)), Some((m2, s2, e2, _ks))) => {
            check!(*m1 == *m2, "C18: minimiser of a run differs from the plain minimiser iterator");
            check!(*s1 == *s2, "C18: start of a run differs from the plain minimiser iterator");
            check!(*e1 == *e2, "C18: end of a run differs from the plain minimiser iterator");
        }
        (Some(_), None) => {
            check!(false, "C18: the k-mer reporting iterator ends before the plain minimiser iterator");
        }
        (None, Some(_)) => {
            check!(false, "C18: the k-mer reporting iterator yields a run the plain minimiser iterator does not have");
        }
    }
    let pa = read_plain(&plain);
    let pb = read_withk(&withk);
    check!(same(&pa, &pb), "C18: after one step the two iterators no longer agree on their shared state (runs will diverge)");
    check!(inv(&pb, withk.k_val_l, len, W, M), "C18: (inductive step) validity invariant not re-established");
    cover!(a.is_some() && st.buff_len == W - M + 1, "req: a run is emitted from a state with a full buffer");
    cover!(a.is_none(), "req: end of sequence reached");
    cover!(a.is_some() && pb.buff_len == 0, "opt: run closed by an ambiguous byte");
    cover!(true, "req: end of harness reached");
    core::mem::forget(b);
}

/// Base case: freshly constructed iterators agree and satisfy the invariant.
pub fn c18_base<const W: usize, const M: usize, const N: usize>() {
    let seq: [u8; N] = any_seq::<N>();
    let len = any_usize();
    assume(len <= N);
    let s = &seq[..len];
    let plain = MinimiserGenerator::new(s, W, M);
    let withk = KmerMinimiserGenerator::new(s, W, M);
    let pa = read_plain(&plain);
    let pb = read_withk(&withk);
    check!(same(&pa, &pb), "C18: freshly constructed iterators do not agree on their shared state");
    check!(inv(&pb, withk.k_val_l, len, W, M), "C18: (base case) validity invariant does not hold after new()");
    cover!(true, "req: end of harness reached");
}


// ---------------------------------------------------------------------------
// Clause (2) as an inductive step: the k-mer list attached by ONE call is exactly
// the list of canonical w-mers of the valid windows that END at the positions this
// call consumed.  Calls consume consecutive, disjoint position ranges that tile
// [0, len), so by induction the concatenation over all calls is the sequence of
// canonical w-mers of the input in order - none lost, none duplicated - for call
// histories of any length.

use crate::minimiser::verif_c09i::{any_state as any_mstate, clean_run, inv as inv_m};

/// what the three k-mer fields mean: c = clean bases since the last ambiguous byte
fn inv_k<const W: usize, const N: usize>(s: &[u8], p: usize, k_val_f: u64, k_val_r: u64, k_val_l: usize) -> bool {
    let c = clean_run::<N>(s, p);
    if k_val_l != (if c < W - 1 { c } else { W - 1 }) {
        return false;
    }
    let held = if c < W { c } else { W };
    let mut f = 0u64;
    let mut r = 0u64;
    let mut j = 0usize;
    while j < W {
        if j < held {
            let d = code(s[p - 1 - j]) as u64;
            f |= d << (2 * j);
            r |= (3 - d) << (2 * (W - 1 - j));
        }
        j += 1;
    }
    k_val_f == f && k_val_r == r
}

/// W <= 31, M concrete (W - M + 1 <= BCAP); N = max sequence length.
pub fn c18_kmers_step<const W: usize, const M: usize, const N: usize>() {
    let seq: [u8; N] = any_seq::<N>();
    let len = any_usize();
    assume(len <= N);
    let s = &seq[..len];
    let st = any_mstate();
    let k_val_f = any_u64();
    let k_val_r = any_u64();
    let k_val_l = any_usize();
    assume(inv_m::<W, M, N>(&st, s));
    assume(inv_k::<W, N>(s, st.pos, k_val_f, k_val_r, k_val_l));

    #[cfg(not(kani))]
    {
        // native replay: confirmed only by a real history (both real iterators from `new`)
        let mut b = KmerMinimiserGenerator::new(s, W, M);
        let mut kg = crate::kmer::KmerGenerator::new(s, W);
        let mut i = 0;
        while i < N + 3 {
            if let Some((_, _, _, ks)) = b.next() {
                let mut j = 0;
                while j < ks.len() {
                    let g = kg.next();
                    check!(g.map(|(f, r)| if f < r { f } else { r }) == Some(ks[j]), "C18: (from new) attached k-mers are not the canonical w-mers of the windows in order");
                    j += 1;
                }
            }
            i += 1;
        }
        check!(kg.next().is_none(), "C18: (from new) a valid window's w-mer is lost (not attached to any run)");
        println!("REPLAY-INFO: inductive-step counterexample not confirmed by a real history on this sequence (pre-state may be unreachable)");
        return;
    }

    let mut withk = build_withk(s, W, M, &st, k_val_f, k_val_r, k_val_l);
    let out = withk.next();
    let post = read_withk(&withk);
    check!(post.pos >= st.pos && post.pos <= len, "C18: the iterator position moves backwards or past the end");
    check!(out.is_some() || post.pos == len, "C18: the iterator ends before the end of the sequence");
    // oracle: canonical w-mers of the valid windows ending at the positions consumed by this call
    let mut n = 0usize;
    let mut e = 0usize;
    while e < N {
        if e >= st.pos && e < post.pos && e + 1 >= W && all_clean(&s[e + 1 - W..e + 1]) {
            let w = &s[e + 1 - W..e + 1];
            let f = fwd_code(w);
            let r = rev_code(w);
            let c = if f < r { f } else { r };
            match &out {
                Some((_, _, _, ks)) => {
                    check!(n < ks.len(), "C18: a valid window's w-mer is lost (not attached to any run)");
                    if n < ks.len() {
                        check!(ks[n] == c, "C18: attached k-mers are not the canonical w-mers of the windows in order");
                    }
                }
                None => {
                    check!(false, "C18: a valid window's w-mer is lost (not attached to any run)");
                }
            }
            n += 1;
        }
        e += 1;
    }
    if let Some((_, _, _, ks)) = &out {
        check!(ks.len() == n, "C18: a k-mer is attached that is no w-mer of a valid window");
    }
    check!(inv_m::<W, M, N>(&post, s), "C18: (inductive step) the state invariant is not re-established");
    check!(inv_k::<W, N>(s, post.pos, withk.k_val_f, withk.k_val_r, withk.k_val_l), "C18: (inductive step) the k-mer field invariant is not re-established");
    cover!(n >= 2, "req: a call that attaches two or more w-mers");
    cover!(out.is_some() && n == 0, "opt: a run returned with an empty k-mer list");
    cover!(true, "req: end of harness reached");
    core::mem::forget(out);
}

pub fn c18_kmers_base<const W: usize, const M: usize, const N: usize>() {
    let seq: [u8; N] = any_seq::<N>();
    let len = any_usize();
    assume(len <= N);
    let s = &seq[..len];
    let g = KmerMinimiserGenerator::new(s, W, M);
    let st = read_withk(&g);
    check!(inv_m::<W, M, N>(&st, s), "C18: (base case) the state invariant does not hold after new()");
    check!(inv_k::<W, N>(s, st.pos, g.k_val_f, g.k_val_r, g.k_val_l), "C18: (base case) the k-mer field invariant does not hold after new()");
    cover!(true, "req: end of harness reached");
}
