//! C01 — the k-mer iterator yields exactly the valid windows, in order,
//! 2-bit encoded.  Real code executed: KmerGenerator::{new,next}, SEQ_NT4_TABLE.
#![allow(dead_code)]
use crate::kmer::KmerGenerator;
use crate::verif_support::*;

/// K = k-mer size (concrete per instance), N = maximal sequence length.
/// The sequence length is symbolic in 0..=N.
pub fn c01_body<const K: usize, const N: usize>() {
    let seq: [u8; N] = any_seq::<N>();
    let len = any_usize();
    assume(len <= N);
    let s = &seq[..len];

    let mut g = KmerGenerator::new(s, K);
    let mut clean = 0usize; // clean bases accumulated up to and including i
    let mut emitted = 0usize;
    let mut crossed_after_full = false;
    let mut resumed = false;
    let mut i = 0usize;
    while i < len {
        if code(seq[i]) < 4 {
            clean += 1;
        } else {
            if emitted > 0 {
                crossed_after_full = true;
            }
            clean = 0;
        }
        if clean >= K {
            // the window [i+1-K, i] consists only of A/C/G/T/U letters
            let w = &seq[i + 1 - K..i + 1];
            let f = fwd_code(w);
            let r = rev_code(w);
            let got = g.next();
            check!(got.is_some(), "C01: a valid window is not yielded (iterator ended early)");
            let (gf, gr) = got.unwrap();
            check!(gf == f, "C01: forward code differs from the base-4 reading of the window");
            check!(gr == r, "C01: reverse-strand code differs from the reverse complement of the window");
            check!(gf < pow4(K), "C01: forward code is not below 4^k");
            if crossed_after_full {
                resumed = true;
            }
            emitted += 1;
        }
        i += 1;
    }
    check!(g.next().is_none(), "C01: an item is yielded that is not a valid window");
    check!(g.next().is_none(), "C01: iterator yields again after it has ended");
    cover!(emitted >= 2, "req: two or more k-mers emitted");
    cover!(true, "req: end of harness reached");
    cover!(emitted == 0 && len >= K, "opt: long enough but no valid window");
    cover!(resumed, "opt: k-mers resumed after an ambiguous byte");
}
