//! C09 — the minimiser iterator emits exactly the maximal runs of
//! same-minimiser windows.  Real code executed: MinimiserGenerator::{new,next}
//! (kmer/src/minimiser.rs) with the VecDeque queue model under cfg(kani).
#![allow(dead_code)]
use crate::minimiser::MinimiserGenerator;
use crate::verif_support::*;

/// Oracle: expected runs of `s` for window W and minimiser size M, written
/// from the property text.  Returns the number of runs; run r is
/// (min[r], start[r], end[r]).
pub fn oracle_runs<const W: usize, const M: usize, const R: usize>(
    s: &[u8],
    exp: &mut [(u64, usize, usize); R],
) -> usize {
    let len = s.len();
    let mut n = 0usize;
    let mut open = false;
    let mut start = 0usize;
    while start + W <= len {
        let w = &s[start..start + W];
        if all_clean(w) {
            // minimiser = smallest canonical M-mer inside the window
            let mut mn = u64::MAX;
            let mut p = 0usize;
            while p + M <= W {
                let mm = &w[p..p + M];
                let f = fwd_code(mm);
                let r = rev_code(mm);
                let c = if f < r { f } else { r };
                if c < mn {
                    mn = c;
                }
                p += 1;
            }
            if open && exp[n - 1].0 == mn {
                exp[n - 1].2 = start + W; // extend the run
            } else {
                exp[n] = (mn, start, start + W);
                n += 1;
                open = true;
            }
        } else {
            open = false;
        }
        start += 1;
    }
    n
}

/// W, M concrete; N = buffer size; R = N - W + 3 (max number of runs + 2);
/// `len` is the (concrete or symbolic) sequence length <= N.
pub fn c09_core<const W: usize, const M: usize, const N: usize, const R: usize>(len: usize) {
    let seq: [u8; N] = any_seq::<N>();
    assume(len <= N);
    let s = &seq[..len];

    // flat call sequence on the real iterator
    let mut g = MinimiserGenerator::new(s, W, M);
    let mut out: [Option<(u64, usize, usize)>; R] = [None; R];
    let mut r = 0;
    while r < R {
        out[r] = g.next();
        r += 1;
    }

    let mut exp = [(0u64, 0usize, 0usize); R];
    let n = oracle_runs::<W, M, R>(s, &mut exp);

    let mut i = 0;
    while i < R {
        if i < n {
            check!(out[i].is_some(), "C09: a run of full windows is not reported (iterator ended early)");
            let (mv, st, en) = out[i].unwrap();
            check!(mv == exp[i].0, "C09: reported value is not the minimiser of the run's windows");
            check!(st == exp[i].1, "C09: reported start is not the start of the run's first window");
            check!(en == exp[i].2, "C09: reported end is not the end of the run's last window");
        } else if i == n {
            check!(out[i].is_none(), "C09: an item is emitted that corresponds to no run of full windows");
        }
        i += 1;
    }
    cover!(n >= 2, "opt: two or more runs");
    cover!(n >= 1, "opt: at least one run");
    cover!(n == 0 && len >= M && len < W, "opt: clean or unclean stretch of length in [m, w) only");
    cover!(true, "req: end of harness reached");
}

pub fn c09_fixed<const W: usize, const M: usize, const N: usize, const R: usize>() {
    c09_core::<W, M, N, R>(N)
}

pub fn c09_symlen<const W: usize, const M: usize, const N: usize, const R: usize>() {
    let len = any_usize();
    c09_core::<W, M, N, R>(len)
}
