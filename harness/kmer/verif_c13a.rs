//! C13 helper (child module of kmer::kmer): read access to the private slice of a
//! KmerGenerator, so that the binding harness can show WHICH bytes the wrapped
//! iterator walks.
#![allow(dead_code)]
pub fn seq_of<'a>(g: &super::KmerGenerator<'a>) -> &'a [u8] {
    g.seq
}
