//! C03 — the canonical k-mer column index is a dense ordered bijection.
//! Real code executed: KmerGenerator::kmer_pos_maps (in-solver for k <= 3,
//! table by native run for k >= 4), KmerGenerator::rev_comp.
#![allow(dead_code)]
use crate::kmer::KmerGenerator;
use crate::verif_support::*;

/*@@TABLES@@*/

fn canon_oracle(x: u64, k: usize) -> u64 {
    let r = rc_code_oracle(x, k);
    if x < r { x } else { r }
}

/// The five quantified obligations, for symbolic x, y < 4^K and column p,
/// against a rank table, an inverse table and a count.
fn obligations<const K: usize, F: Fn(usize) -> Option<u64>>(rank: &[usize], inv_at: F, count: usize, inv_len: usize) {
    let total = pow4(K) as usize;
    check!(rank.len() == total, "C03: rank table does not have 4^k entries");
    check!(count == expected_count(K), "C03: column count is not (4^k + 4^(k/2))/2 (even k) / 4^k/2 (odd k)");
    check!(inv_len == count, "C03: index-to-k-mer map does not have one entry per column");
    let x = any_u64();
    let y = any_u64();
    let p = any_usize();
    assume(x < pow4(K));
    assume(y < pow4(K));
    assume(p < count);
    // the real rev_comp defines "canonical"; it must agree with the text-level oracle
    let rx = KmerGenerator::rev_comp(x, K);
    let cx = if x < rx { x } else { rx };
    check!(cx == canon_oracle(x, K), "C03: canonical form differs from the oracle");
    let cy = canon_oracle(y, K);
    let px = rank[cx as usize];
    let py = rank[cy as usize];
    check!(px < count, "C03: rank of a canonical k-mer is not a column index");
    if cx < cy {
        check!(px < py, "C03: rank is not strictly increasing with the canonical code (order / injectivity)");
    }
    if cx == cy {
        check!(px == py, "C03: rank is not a function of the canonical code");
    }
    check!(inv_at(px) == Some(cx), "C03: index-to-k-mer map is not the inverse of the rank");
    let ip = inv_at(p);
    check!(ip.is_some(), "C03: a column has no k-mer (not surjective)");
    let c = ip.unwrap();
    check!(c < pow4(K), "C03: column k-mer is not a k-mer code");
    check!(c == canon_oracle(c, K), "C03: column k-mer is not canonical");
    check!(rank[c as usize] == p, "C03: rank of a column's k-mer is not the column");
    cover!(cx != x, "req: non-canonical x");
    cover!(cx == x && rx == x, "opt: palindromic x");
    cover!(true, "req: end of harness reached");
}

/// Encoding validation: the real kmer_pos_maps(K) executed INSIDE the solver
/// (map/set model, Kani's Vec/sort) gives exactly the table of the native run.
pub fn c03_insolver<const K: usize>(rank_native: &'static [usize], inv_native: &'static [u64], count_native: usize) {
    let (rank, inv, count) = KmerGenerator::kmer_pos_maps(K);
    check!(count == count_native, "C03: count computed in-solver differs from the native run (encoding error)");
    check!(rank.len() == rank_native.len(), "C03: rank table computed in-solver differs in length from the native run (encoding error)");
    let mut i = 0;
    while i < rank_native.len() {
        if i < rank.len() {
            check!(rank[i] == rank_native[i], "C03: rank table computed in-solver differs from the native run (encoding error)");
        }
        i += 1;
    }
    let mut p = 0;
    while p < inv_native.len() {
        check!(inv.get(&p).copied() == Some(inv_native[p]), "C03: inverse table computed in-solver differs from the native run (encoding error)");
        p += 1;
    }
    cover!(true, "req: end of harness reached");
    core::mem::forget(rank);
    core::mem::forget(inv);
}

/// table dumped by a native run of the real function on the current tree.
pub fn c03_table<const K: usize>(rank: &'static [usize], inv: &'static [u64], count: usize, inv_len: usize) {
    obligations::<K, _>(rank, |p| if p < inv.len() && inv[p] != u64::MAX { Some(inv[p]) } else { None }, count, inv_len);
}
