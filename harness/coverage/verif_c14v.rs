//! C14 (a) for the coverage histogram: safety-only run of the private
//! CovComputer::vectorise_one with extreme multiplicities and bin settings.
#![allow(dead_code)]
use crate::verif_c08::mk;
use crate::verif_support::*;
#[cfg(kani)]
use kmer::verif_shim::HashMap;
#[cfg(not(kani))]
use std::collections::HashMap;

pub fn c14_cov_safety<const K: usize, const N: usize, const E: usize, const BINS: usize, const MAXBIN: usize>() {
    let seq: [u8; N] = any_seq::<N>();
    let len = any_usize();
    assume(len <= N);
    let bin_size = any_usize();
    assume(bin_size >= 1 && bin_size <= MAXBIN);
    let bin_count = BINS;
    let norm = any_bool();
    let mut counts: HashMap<u64, u32> = HashMap::new();
    let mut e = 0;
    while e < E {
        counts.insert(any_u64(), any_u32());
        e += 1;
    }
    let cc = mk(K, bin_size, bin_count, norm);
    let v = cc.vectorise_one(&seq[..len], &counts);
    check!(v.len() == bin_count, "C14: histogram does not have bin-count entries");
    cover!(len == N, "req: full-length record");
    cover!(true, "req: end of harness reached");
    core::mem::forget(v);
    core::mem::forget(counts);
    core::mem::forget(cc);
}
