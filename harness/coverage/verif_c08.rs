//! C08 (kernel) — coverage histogram of one record for ANY counts table.
//! Child module of the coverage crate root: executes the private
//! CovComputer::vectorise_one.
#![allow(dead_code)]
use crate::verif_support::*;
use crate::CovComputer;
#[cfg(kani)]
use kmer::verif_shim::HashMap;
#[cfg(not(kani))]
use std::collections::HashMap;

pub fn mk(k: usize, bin_size: usize, bin_count: usize, norm: bool) -> CovComputer {
    CovComputer {
        in_path: String::new(),
        in_path_kmer: String::new(),
        out_dir: String::new(),
        ksize: k,
        threads: 1,
        norm,
        delim: String::new(),
        bin_size,
        bin_count,
        memory_ceil_gb: 0.0,
    }
}

/// The computer built by the REAL public constructor + set_norm (rayon::current_num_threads stubbed -> 1 under Kani).
pub fn mk_new(k: usize, bin_size: usize, bin_count: usize, norm: bool) -> CovComputer {
    let mut cc = CovComputer::new(String::new(), String::new(), k, bin_size, bin_count);
    cc.set_norm(norm);
    cc
}

#[cfg(kani)]
pub fn one_thread() -> usize {
    1
}

/// K concrete, N = max length, E = entries of the counts table (symbolic
/// canonical-or-not keys, symbolic u32 multiplicities), BINS = bin count (concrete:
/// a symbolic allocation size made CBMC's array encoding run out of memory).
pub fn c08_body<const K: usize, const N: usize, const E: usize, const BINS: usize, const NORM: bool, const MAXBIN: usize>() {
    let seq: [u8; N] = any_seq::<N>();
    let len = any_usize();
    assume(len <= N);
    let bin_size = any_usize();
    assume(bin_size >= 1 && bin_size <= MAXBIN);
    let bin_count = BINS;

    let mut keys = [0u64; E];
    let mut vals = [0u32; E];
    let mut quot = [0u64; E];
    let mut counts: HashMap<u64, u32> = HashMap::new();
    let mut e = 0;
    while e < E {
        keys[e] = any_u64();
        vals[e] = any_u32();
        // distinct keys (a table has one line per k-mer)
        let mut d = 0;
        while d < e {
            assume(keys[d] != keys[e]);
            d += 1;
        }
        counts.insert(keys[e], vals[e]);
        // integer floor(multiplicity / bin-size) WITHOUT a divider circuit: a fresh
        // quotient constrained by the division lemma  q*b <= c < (q+1)*b
        let q = any_u64();
        assume(q <= vals[e] as u64);
        let qb = q * (bin_size as u64);
        assume(qb <= vals[e] as u64 && (vals[e] as u64) - qb < bin_size as u64);
        quot[e] = q;
        e += 1;
    }

    let cc = mk_new(K, bin_size, bin_count, NORM);
    let v = cc.vectorise_one(&seq[..len], &counts);
    check!(v.len() == bin_count, "C08: row does not have bin-count entries");
    let b = any_usize();
    assume(b < bin_count);

    let mut cnt = 0u32;
    let mut total = 0u32;
    let mut big = false;
    let mut st = 0usize;
    while st + K <= N {
        if st + K <= len && all_clean(&seq[st..st + K]) {
            let w = &seq[st..st + K];
            let f = fwd_code(w);
            let r = rev_code(w);
            let c = if f < r { f } else { r };
            let mut q = 0u64; // absent from the counting input: 0 occurrences -> bin 0
            let mut e = 0;
            while e < E {
                if keys[e] == c {
                    q = quot[e]; // floor(multiplicity / bin-size)
                }
                e += 1;
            }
            let bin = if q >= (bin_count as u64 - 1) { bin_count - 1 } else { q as usize };
            if q > bin_count as u64 {
                big = true;
            }
            if bin == b {
                cnt += 1;
            }
            total += 1;
        }
        st += 1;
    }
    if b < v.len() {
        if NORM {
            let d = if total == 0 { 1.0 } else { total as f64 };
            check!(v[b] == cnt as f64 / d, "C08: normalised entry is not the fraction of windows falling in the bin");
        } else {
            check!(v[b] == cnt as f64, "C08: entry is not the number of windows whose k-mer multiplicity falls in the bin");
        }
        if total == 0 {
            check!(v[b] == 0.0, "C08: record without valid window does not give an all-zero row");
        }
    }
    cover!(total >= 2 && cnt >= 1 && (b >= 1 || BINS == 1), "req: two windows, a bin above 0 hit");
    cover!(big, "req: multiplicity beyond the last bin");
    cover!(true, "req: end of harness reached");
    core::mem::forget(v);
    core::mem::forget(counts);
    core::mem::forget(cc);
}
